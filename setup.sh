#!/bin/bash
# builds the gossa front end (offline; x/tools v0.29.0 from the module cache)
set -e
cd "$(dirname "$0")/gossa"
export GOFLAGS=-mod=mod GOPROXY=off GOSUMDB=off GOTOOLCHAIN=local
mkdir -p ../bin
go build -o ../bin/gossa .
echo "gossa built"
