#!/usr/bin/env python3
"""writes MANIFEST.json from the check specs under checks/ and the not-applicable table below"""
import importlib, json, os, sys
sys.path.insert(0, os.path.dirname(os.path.dirname(os.path.abspath(__file__))))

ALL = ['C%02d' % i for i in range(1, 21)]

NA = {
    'C15': 'data-race freedom is a happens-before property over schedules; no single-goroutine assertion is equivalent; the cooperative goroutine scheduler executes one schedule and tracks no happens-before order, and a race detector on top of it would be dynamic analysis of one run rather than a solver verdict (DESIGN §4)',
    'C18': 'the generator is encoding/xml + regexp + text/template + file I/O + the Go compiler over XML documents: not a bounded computation over integers/arrays that can be encoded (DESIGN §4)',
}
PENDING = 'check not built yet in this session (see DESIGN §6 build order); not claimed until a check runs clean'


def main():
    root = os.path.dirname(os.path.dirname(os.path.abspath(__file__)))
    checks = []
    na = []
    for pid in ALL:
        path = os.path.join(root, 'checks', pid.lower() + '.py')
        if pid in NA:
            na.append({'property_id': pid, 'reason': NA[pid]})
            continue
        if not os.path.exists(path):
            na.append({'property_id': pid, 'reason': PENDING})
            continue
        spec = importlib.import_module('checks.' + pid.lower())
        if getattr(spec, 'DISABLED', None):
            na.append({'property_id': pid, 'reason': spec.DISABLED})
            continue
        checks.append({
            'property_id': pid,
            'quick_cmd': './check %s --tier quick' % pid,
            'thorough_cmd': './check %s --tier thorough' % pid,
            'evidence_file': '/verif/evidence/%s.json' % pid,
            'replay_cmd_template': './check %s --replay {path}' % pid,
            'engine': 'gosym',
            'level_claimed': {
                'category': 'model_checking',
                'text': getattr(spec, 'LEVEL_TEXT', 'bounded symbolic model checking of the real code: go/ssa of the implementation executed symbolically, each assertion decided by z3 for all values inside the stated bounds; counterexamples replayed natively'),
                'design_ref': 'DESIGN.md §3 ' + pid,
            },
            'level_note': getattr(spec, 'LEVEL_NOTE', 'trusted: go/ssa construction, the gosym executor (validated each run against native execution of sampled path models), z3; stubs listed in the evidence file; nothing is claimed outside the bounds listed in evidence.coverage.bounds'),
            'technique': getattr(spec, 'TECHNIQUE', 'SMT-based bounded symbolic execution of go/ssa (z3), native counterexample replay'),
        })
    m = {
        'version': 1,
        'setup_cmd': 'bash /verif/setup.sh',
        'hooks': {
            'guard': 'verif',
            'enable': 'none needed: harnesses are injected as in-package overlay files (go/packages Overlay, go test -overlay); no source hooks in /repo',
            'baseline_off_cmd': 'cd /repo && GOFLAGS=-mod=mod GOPROXY=off go test -vet=off -count=1 -timeout 25m ./...',
            'source_commits': [],
            'add_only': True,
        },
        'engines': [{
            'name': 'gosym',
            'path': '/verif/gosym',
            'serves_properties': [c['property_id'] for c in checks],
            'kind_free_text': 'go/ssa -> JSON (gossa, Go) -> path-forking symbolic executor (Python, z3 5.1 in-process); counterexamples and sampled path models replayed against the natively compiled code via go test -overlay',
        }],
        'checks': checks,
        'not_applicable': na,
        'notes': 'All checks rebuild their encoding from /repo\'s working tree on every run. fix: commits in /repo are listed in /verif/known_findings.json.',
    }
    with open(os.path.join(root, 'MANIFEST.json'), 'w') as f:
        json.dump(m, f, indent=1)
    print('MANIFEST: %d checks, %d not applicable' % (len(checks), len(na)))


if __name__ == '__main__':
    main()
