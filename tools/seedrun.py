#!/usr/bin/env python3
"""apply a seeded change to /repo, run checks against it, undo it.
usage: tools/seedrun.py <patch.diff> <check id> [<check id> ...] [--tier quick|thorough]
prints one line per check: DETECTED / missed / inconclusive"""
import os
import subprocess
import sys
import time

VERIF = os.path.dirname(os.path.dirname(os.path.abspath(__file__)))
REPO = '/repo'


def sh(cmd, **kw):
    return subprocess.run(cmd, shell=True, capture_output=True, text=True, **kw)


def main():
    args = [a for a in sys.argv[1:] if not a.startswith('--')]
    tier = 'quick'
    for a in sys.argv[1:]:
        if a.startswith('--tier='):
            tier = a.split('=')[1]
    patch = os.path.abspath(args[0])
    checks = args[1:]
    st = sh('git -C %s status --porcelain' % REPO).stdout.strip()
    if st:
        print('refusing: /repo is not clean:\n' + st)
        sys.exit(2)
    r = sh('git -C %s apply %s' % (REPO, patch))
    if r.returncode != 0:
        print('patch does not apply: ' + r.stderr)
        sys.exit(2)
    results = {}
    try:
        for c in checks:
            t0 = time.time()
            r = sh('./check %s --tier %s' % (c, tier), cwd=VERIF)
            viol = [l for l in r.stdout.splitlines() if l.startswith('VIOLATION')]
            known = [l for l in r.stdout.splitlines() if l.startswith('KNOWN-FINDING')]
            verdict = 'DETECTED' if r.returncode == 1 and viol else ('inconclusive(exit %d)' % r.returncode if r.returncode != 0 else 'missed')
            detail = ''
            for l in r.stderr.splitlines():
                if l.startswith('[%s]   ' % c):
                    detail = l[len('[%s]   ' % c):][:220]
                    break
            if verdict != 'DETECTED':
                inc = [l for l in r.stderr.splitlines() if 'INCONCLUSIVE' in l or 'ERROR' in l]
                if inc:
                    detail = inc[0][:220]
            results[c] = verdict
            print('%s %s %s (%.0fs) %s' % (os.path.basename(os.path.dirname(patch)) + '/' + os.path.basename(patch), c, verdict, time.time() - t0, detail), flush=True)
    finally:
        sh('git -C %s checkout -- .' % REPO)
        left = sh('git -C %s status --porcelain' % REPO).stdout.strip()
        if left:
            print('WARNING: /repo not clean after revert:\n' + left)
    sys.exit(0)


if __name__ == '__main__':
    main()
