#!/usr/bin/env python3-vt
"""debug helper: run selected harness instances of a check in-process.
usage: tools/dbg.py C20 'verifHarness_C20_time:0' 'verifHarness_C20_write:1,0' [--timeout-ms N]"""
import importlib
import os
import sys
import time

sys.path.insert(0, os.path.dirname(os.path.dirname(os.path.abspath(__file__))))
from gosym import run  # noqa
from gosym.ir import Program  # noqa
from gosym.engine import Engine  # noqa


def main():
    pid = sys.argv[1]
    spec = importlib.import_module('checks.' + pid.lower())
    ov = '/tmp/dbg-ov-%s' % pid
    extra = spec.generate('quick') if hasattr(spec, 'generate') else {}
    pk = run.build_overlay(ov, spec.HARNESS_FILES, extra, getattr(spec, 'CLOCK_PKGS', ()), getattr(spec, 'KERNEL_PKGS', ()))
    M = 'github.com/bluenviron/gomavlib/v3'
    inits = [x for x in getattr(spec, 'INITS', '').split(',') if x]
    for p in pk:
        inits.append(M if p == '.' else M + '/' + p)
    jp = '/tmp/dbg-%s.json' % pid
    print(run.run_gossa(ov, sorted(set(pk) | set(getattr(spec, 'EXTRA_PKGS', []))), getattr(spec, 'ROOTS', ['verifHarness_']), jp,
                        allow=getattr(spec, 'ALLOW', ''), inits=','.join(inits), mtypes=getattr(spec, 'MTYPES', '')))
    p = Program(jp)
    opts = dict(getattr(spec, 'OPTIONS', {}))
    tmo = 10000
    items = []
    for a in sys.argv[2:]:
        if a.startswith('--timeout-ms='):
            tmo = int(a.split('=')[1])
        elif a.startswith('--opt='):
            k, v = a[6:].split('=')
            opts[k] = eval(v)
        else:
            items.append(a)
    opts['timeout_ms'] = tmo
    E = Engine(p, opts)
    t0 = time.time()
    E.run_inits()
    if opts.get('setup_fn'):
        E.run_setup(opts['setup_fn'])
    setup = opts.get('setup')
    if setup:
        mod, fn = setup.rsplit(':', 1)
        getattr(importlib.import_module(mod), fn)(E)
    print('inits %.2fs notes=%s' % (time.time() - t0, E.init_notes[:8]))
    pkgpath = M if spec.PKG == '.' else M + '/' + spec.PKG
    for it in items:
        name, _, args = it.partition(':')
        args = [int(x) for x in args.split(',') if x != '']
        hp = pkgpath
        if '@' in name:  # harness in another package: pkg/timednetconn@verifHarness_X
            sub, name = name.split('@')
            hp = M if sub == '.' else M + '/' + sub
        t0 = time.time()
        from gosym.engine import Stats
        E.stats = Stats()
        E.explore(hp + '.' + name, args, deadline=time.time() + float(os.environ.get('DBG_DEADLINE', '120')))
        st = E.stats
        print('%s%s paths=%d aborted=%d instr=%d oblig=%d discharged=%d triv=%d q=%d solver=%.2fs reach=%s wall=%.2fs pending=%d' % (
            name, args, st.paths, st.paths_aborted, st.instrs, st.obligations, st.discharged, st.trivial, st.queries, st.solver_s,
            st.reach, time.time() - t0, len(E.pending)), flush=True)
        for v in E.violations[:4]:
            print('  VIOL', str(v.to_json())[:700])
        for m in E.inconclusive[:6]:
            print('  INCONCLUSIVE', m[:600])
        E.violations = []
        E.inconclusive = []


main()
