#!/usr/bin/env python3
"""collect the confirmed seeded changes into /verif/seeded/<id>/ (patch.diff, demonstration, note, meta.json)
from the sub-agents' scratch output (/tmp/seed_<P>/out), the confirmation log and the detection log"""
import json
import os
import re
import shutil
import sys

VERIF = os.path.dirname(os.path.dirname(os.path.abspath(__file__)))
ROUND = sys.argv[1] if len(sys.argv) > 1 else '1'
if ROUND == '1':
    PAIRS = [('/tmp/seed_batch2.sh', '/tmp/seedrun_final.log'), ('/tmp/seed_batch3.sh', '/tmp/seedrun_final3.log')]
    CONF = '/tmp/confirm_seeds.log'
    SRC = '/tmp/seed_%s/out'
    NAME = '%s_%d'
    LOGPREFIX = 'out/patch'
elif ROUND == '8':
    PAIRS = [('/tmp/seed8_batch.sh', '/tmp/seedrun8.log'), ('/tmp/seed8_batch2.sh', '/tmp/seedrun8b.log')]
    CONF = '/tmp/confirm_seeds8.log'
    SRC = '/tmp/seedout8_%s'
    NAME = '%s_r8_%d'
    LOGPREFIX = 'seedout8_'
elif ROUND == '7':
    PAIRS = [('/tmp/seed7_batch.sh', '/tmp/seedrun7.log'), ('/tmp/seed7_batch2.sh', '/tmp/seedrun7b.log')]
    CONF = '/tmp/confirm_seeds7.log'
    SRC = '/tmp/seedout7_%s'
    NAME = '%s_r7_%d'
    LOGPREFIX = 'seedout7_'
elif ROUND == '6':
    PAIRS = [('/tmp/seed6_batch.sh', '/tmp/seedrun6.log'), ('/tmp/seed6_batch2.sh', '/tmp/seedrun6b.log')]
    CONF = '/tmp/confirm_seeds6.log'
    SRC = '/tmp/seedout6_%s'
    NAME = '%s_r6_%d'
    LOGPREFIX = 'seedout6_'
elif ROUND == '5':
    PAIRS = [('/tmp/seed5_batch.sh', '/tmp/seedrun5.log'), ('/tmp/seed5_batch2.sh', '/tmp/seedrun5b.log')]
    CONF = '/tmp/confirm_seeds5.log'
    SRC = '/tmp/seedout5_%s'
    NAME = '%s_r5_%d'
    LOGPREFIX = 'seedout5_'
elif ROUND == '4':
    PAIRS = [('/tmp/seed4_batch.sh', '/tmp/seedrun4.log'), ('/tmp/seed4_batch2.sh', '/tmp/seedrun4b.log'), ('/tmp/seed4_batch3.sh', '/tmp/seedrun4c.log')]
    CONF = '/tmp/confirm_seeds4.log'
    SRC = '/tmp/seedout4_%s'
    NAME = '%s_r4_%d'
    LOGPREFIX = 'seedout4_'
elif ROUND == '3':
    PAIRS = [('/tmp/seed3_batch.sh', '/tmp/seedrun3.log'), ('/tmp/seed3_batch2.sh', '/tmp/seedrun3b.log'), ('/tmp/seed3_batch3.sh', '/tmp/seedrun3c.log')]
    CONF = '/tmp/confirm_seeds3.log'
    SRC = '/tmp/seedout3_%s'
    NAME = '%s_r3_%d'
    LOGPREFIX = 'seedout3_'
else:
    PAIRS = [('/tmp/seed2_batch.sh', '/tmp/seedrun2.log'), ('/tmp/seed2_batch3.sh', '/tmp/seedrun2b.log')]
    CONF = '/tmp/confirm_seeds2.log'
    SRC = '/tmp/seedout2_%s'
    NAME = '%s_r2_%d'
    LOGPREFIX = 'seedout2_'


def main():
    results = {}
    for BATCH, DETLOG in PAIRS:
        if ROUND >= '7':
            # the log lines name the seed themselves: <out>_<P>/patch<k>.diff <check> <verdict> (<s>s) <what>
            fresh = {}
            for l in open(DETLOG):
                m = re.match(r'\S*?_(C\d+)/patch(\d)\.diff (C\d+) (\S+(?:\(exit \d+\))?) \((\d+)s\) ?(.*)', l)
                if m:
                    fresh.setdefault((m.group(1), int(m.group(2))), []).append(
                        {'check': m.group(3), 'verdict': m.group(4), 'seconds': int(m.group(5)), 'what': m.group(6)[:160]})
            for key, rs in fresh.items():
                old = [r for r in results.get(key, []) if r['check'] not in {x['check'] for x in rs}]
                results[key] = old + rs
            continue
        runs = []
        for l in open(BATCH):
            m = re.match(r'run (C\d+) patch(\d) (.*)', l.strip())
            if m:
                runs.append((m.group(1), int(m.group(2)), m.group(3).split()))
        lines = [l for l in open(DETLOG) if l.startswith(LOGPREFIX)]
        i = 0
        fresh = {}
        merged_prev = results
        for p, k, checks in runs:
            for c in checks:
                if i >= len(lines):
                    break
                l = lines[i]
                i += 1
                m = re.match(r'\S*patch(\d)\.diff (C\d+) (\S+(?:\(exit \d+\))?) \((\d+)s\) ?(.*)', l)
                if not m or int(m.group(1)) != k or m.group(2) != c:
                    print('log/script mismatch at', p, k, c, l[:80])
                    continue
                fresh.setdefault((p, k), []).append({'check': c, 'verdict': m.group(3), 'seconds': int(m.group(4)),
                                                     'what': m.group(5)[:160]})
        for key, rs in fresh.items():
            old = [r for r in results.get(key, []) if r['check'] not in {x['check'] for x in rs}]
            results[key] = old + rs  # a later run of the same check replaces the earlier one
    conf = {}
    for l in open(CONF):
        m = re.match(r'(C\d+)/(\d) place=(\S+) build=\[(.*?)\] suite1=\[(.*?)\] suite2=\[(.*?)\] with=\[(.*?)\] without=\[(.*?)\]', l)
        if m:
            conf[(m.group(1), int(m.group(2)))] = {'place': m.group(3), 'build': m.group(4), 'suite_first_run': m.group(5),
                                                   'suite_second_run': m.group(6), 'demo_with_change': m.group(7),
                                                   'demo_without_change': m.group(8)}
    out = os.path.join(VERIF, 'seeded')
    os.makedirs(out, exist_ok=True)
    rows = []
    for (p, k), res in sorted(results.items()):
        src = SRC % p
        cf = conf.get((p, k))
        ok = cf is not None and cf['build'] == '' and cf['demo_with_change'].startswith('FAIL') and cf['demo_without_change'].startswith('ok') \
            and (cf['suite_first_run'] == '' or cf['suite_second_run'] == '')
        name = NAME % (p, k)
        d = os.path.join(out, name)
        if not ok:
            rows.append((name, 'NOT CONFIRMED', cf))
            if os.path.isdir(d):
                shutil.rmtree(d)
            continue
        os.makedirs(d, exist_ok=True)
        shutil.copy(os.path.join(src, 'patch%d.diff' % k), os.path.join(d, 'patch.diff'))
        shutil.copy(os.path.join(src, 'demo%d_test.go' % k), os.path.join(d, 'demo_test.go.txt'))
        note = open(os.path.join(src, 'note%d.txt' % k)).read()
        open(os.path.join(d, 'note.txt'), 'w').write(note)
        detected_by = [r['check'] for r in res if r['verdict'] == 'DETECTED']
        meta = {
            'id': name,
            'breaks_property': p,
            'needs_to_manifest': note.strip().split('\n')[-3:] if note else [],
            'demonstration': {'file': 'demo_test.go.txt', 'place_in': cf['place'],
                              'with_change': cf['demo_with_change'], 'without_change': cf['demo_without_change']},
            'confirmed': {'scratch_worktree': '/tmp/wt_confirm (removed afterwards)', 'builds': cf['build'] == '',
                          'existing_suite': 'passes (go test -vet=off -count=1 ./... in a private network namespace)'
                          + ('' if cf['suite_first_run'] == '' else '; first run: ' + cf['suite_first_run'][:120] + ' (port/flake), second run clean'),
                          'commands': 'git apply patch.diff; go build ./...; go test ./...; copy demo; go test -run <demo> (FAIL); git checkout; go test -run <demo> (ok)'},
            'checks_run': res,
            'detected_by': detected_by,
        }
        json.dump(meta, open(os.path.join(d, 'meta.json'), 'w'), indent=1)
        rows.append((name, ','.join(detected_by) or 'MISSED', [r['check'] + ':' + r['verdict'] for r in res]))
    with open(os.path.join(out, 'README.md' if ROUND == '1' else 'README_round%s.md' % ROUND), 'w') as f:
        f.write('# Seeded changes\n\nWritten by fresh sub-agents that saw only the property text and a scratch worktree; each was confirmed '
                'independently (builds, existing suite passes, demonstration fails with the change and passes without) and then run against '
                'the checks with `tools/seedrun.py`. The demonstration tests are stored as `demo_test.go.txt` so that no Go tool picks them up.\n\n'
                '| seed | detected by | all check runs |\n|---|---|---|\n')
        for name, det, allr in rows:
            f.write('| %s | %s | %s |\n' % (name, det, ' '.join(allr) if isinstance(allr, list) else allr))
    for r in rows:
        print(r[0], r[1])


main()
