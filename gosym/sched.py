"""Cooperative goroutine scheduler for kernel-mode harnesses.

Every goroutine runs in its own Python thread, but only one thread runs at a time (baton passing), so the
interpreter stays sequential and deterministic. The policy is round-robin "run until it blocks"; the harness
regains control at quiescence (every goroutine finished or blocked). This explores ONE schedule: a bad state
reached this way is a real counterexample to a for-all-schedules property; a pass says nothing about other
schedules (see DESIGN, kernel mode).
"""
import threading


class Killed(BaseException):
    pass


class Gor:
    def __init__(self, fn, name):
        self.fn = fn
        self.name = name
        self.evt = threading.Event()
        self.state = 'new'        # new | running | blocked | done
        self.ready = None
        self.waitrecv = ()
        self.exc = None
        self.thread = None
        self.callstack = []
        self.blocked_on = ''


class Scheduler:
    def __init__(self, E):
        self.E = E
        self.gors = []
        self.back = threading.Event()
        self.cur = None
        self.killing = False
        self.switches = 0
        self.main_waitrecv = ()

    def spawn(self, fn, name='goroutine'):
        g = Gor(fn, name)
        self.gors.append(g)
        return g

    def _main(self, g):
        g.evt.wait()
        g.evt.clear()
        if self.killing:
            g.state = 'done'
            return
        try:
            g.fn()
        except Killed:
            pass
        except BaseException as e:  # noqa: propagated to the harness thread
            g.exc = e
        g.state = 'done'
        self.back.set()

    def run(self, max_switches=20000, until=None):
        """run goroutines round-robin until none can proceed (or until() holds); True if some goroutine is still blocked"""
        E = self.E
        main_stack = E.callstack
        try:
            while True:
                ran = False
                for g in list(self.gors):
                    if g.state == 'done':
                        continue
                    if g.state == 'blocked' and not g.ready():
                        continue
                    self.switches += 1
                    if self.switches > max_switches:
                        from .values import Unsupported
                        raise Unsupported('goroutine scheduler: switch ceiling (livelock?)')
                    self.cur = g
                    g.state = 'running'
                    E.callstack = g.callstack
                    if g.thread is None:
                        g.thread = threading.Thread(target=self._main, args=(g,), daemon=True)
                        g.thread.start()
                    self.back.clear()
                    g.evt.set()
                    self.back.wait()
                    self.cur = None
                    E.callstack = main_stack
                    if g.exc is not None:
                        exc, g.exc = g.exc, None
                        raise exc
                    ran = True
                    if until is not None and until():
                        return True
                if not ran:
                    break
        finally:
            self.cur = None
            E.callstack = main_stack
        return any(g.state == 'blocked' for g in self.gors)

    def block(self, ready, waitrecv=(), what=''):
        """called from a goroutine thread: give the baton back until ready() holds"""
        g = self.cur
        while not ready():
            g.state = 'blocked'
            g.ready = ready
            g.waitrecv = waitrecv
            g.blocked_on = what
            self.back.set()
            g.evt.wait()
            g.evt.clear()
            if self.killing:
                raise Killed()
            g.state = 'running'
        g.waitrecv = ()
        g.blocked_on = ''

    def receivers_waiting(self, ch, exclude=None):
        for c in self.main_waitrecv:
            if c is ch:
                return True
        for g in self.gors:
            if g is exclude or g.state != 'blocked':
                continue
            for c in g.waitrecv:
                if c is ch:
                    return True
        return False

    def blocked_summary(self):
        return ['%s: %s' % (g.name, g.blocked_on) for g in self.gors if g.state == 'blocked']

    def kill_all(self):
        self.killing = True
        for g in self.gors:
            if g.thread is not None and g.state != 'done':
                g.evt.set()
                g.thread.join(timeout=10)
        self.gors = []
