"""gosym: path-forking symbolic executor over go/ssa (JSON from gossa).

Exploration is by re-execution: each path is run from the harness entry with a
prefix of recorded decisions; new decision points query the solver for the
feasibility of each side and push the alternative prefixes on a work list.
"""
import time
import z3

from .ir import Program, Const, GlobalRef, FuncRef, Builtin
from .values import *  # noqa

BV = z3.BitVecVal


def norm(v, bits, signed):
    v &= (1 << bits) - 1
    if signed and (v >> (bits - 1)):
        v -= 1 << bits
    return v


class Violation:
    choices = ()

    def __init__(self, tag, kind, vector, decisions, detail=''):
        self.tag = tag
        self.kind = kind  # 'assert' | 'panic'
        self.vector = vector
        self.decisions = decisions
        self.detail = detail

    def to_json(self):
        return {'tag': self.tag, 'kind': self.kind, 'vector': self.vector, 'decisions': self.decisions,
                'detail': self.detail, 'choices': list(self.choices)}


class Stats:
    def __init__(self):
        self.paths = 0
        self.paths_aborted = 0
        self.instrs = 0
        self.queries = 0
        self.solver_s = 0.0
        self.obligations = 0
        self.discharged = 0
        self.trivial = 0
        self.unknown = 0
        self.reach = {}
        self.funcs = set()
        self.samples = []
        self.panics_expected = 0
        self.forks = 0
        self.oblig_tags = {}

    def merge(self, o):
        self.paths += o.paths
        self.paths_aborted += o.paths_aborted
        self.instrs += o.instrs
        self.queries += o.queries
        self.solver_s += o.solver_s
        self.obligations += o.obligations
        self.discharged += o.discharged
        self.trivial += o.trivial
        self.unknown += o.unknown
        self.forks += o.forks
        for k, v in o.reach.items():
            self.reach[k] = self.reach.get(k, 0) + v
        for k, v in o.oblig_tags.items():
            self.oblig_tags[k] = self.oblig_tags.get(k, 0) + v
        self.funcs |= o.funcs
        if len(self.samples) < 6:
            self.samples.extend(o.samples[:6 - len(self.samples)])


class Engine:
    def __init__(self, prog, options=None):
        self.prog = prog
        self.types = prog.types
        self.opt = options or {}
        self.epoch = 0
        self.globals = {}
        self.undo = []
        self.intrinsics = {}
        self.stats = Stats()
        self.timeout_ms = self.opt.get('timeout_ms', 30000)
        self.branch_timeout_ms = self.opt.get('branch_timeout_ms', 1500)
        self.inc_timeout_ms = self.opt.get('inc_timeout_ms', 4000)
        self.uf_defs = []
        self.max_instrs = self.opt.get('max_instrs', 3000000)
        self.conc_cap = self.opt.get('conc_cap', 300)
        self.violations = []
        self.inconclusive = []
        self.uf = {}
        self.trace = self.opt.get('trace', False)
        self.aided = self.opt.get('aided_simplify', False)
        self.fits = {}
        self.ptrto = {}
        for t in self.types.values():
            if t.k == 'ptr':
                self.ptrto[t.elem] = t.id
        from . import intrinsics
        intrinsics.register(self)
        for name, g in prog.globals.items():
            self.globals[name] = Obj(thaw(self.zero(g['type'])), 0, tag=name)
        # well-known sentinel errors of packages whose init is not executed: distinct opaque error values
        for name in ('os.ErrDeadlineExceeded', 'os.ErrClosed', 'net.ErrClosed', 'io.ErrShortWrite', 'io.ErrClosedPipe'):
            if name in self.globals and self.globals[name].v is None:
                self.globals[name].v = Iface(intrinsics.OPQ, OpaqueErr(name))
        # path state
        self.solver = None
        self.prefix = []
        self.pos = 0
        self.trail = []
        self.pending = []
        self.nondets = []
        self.ncounter = 0
        self.spawned = []
        self.path_instrs = 0
        self.callstack = []
        self.clock_last = None
        self.path_notes = []
        self.mutexes = {}
        self.timers_pending = False
        self.syncmaps = {}
        self.syncmaps_base = {}
        self.builders = {}
        self.keep = []
        self.keep_base = []

    # ------------------------------------------------------------------ types
    def under(self, tid):
        return self.types[tid].u

    def zero(self, tid):
        t = self.types[tid]
        z = t.zero_cache
        if z is not None:
            return z[0]
        u = t.u
        k = u.k
        if k == 'basic':
            n = u.name
            if n == 'bool' or n == 'untyped bool':
                v = False
            elif n == 'string' or n == 'untyped string':
                v = b''
            elif n.startswith('float') or n == 'untyped float':
                v = FloatV(u.bits, 0)
            elif n == 'unsafe.Pointer' or n == 'untyped nil':
                v = None
            else:
                v = 0
        elif k in ('ptr', 'map', 'chan', 'func', 'iface'):
            v = None
        elif k == 'slice':
            v = NILSLICE
        elif k == 'struct':
            v = tuple([self.zero(f['type']) for f in (u.fields or [])])
        elif k == 'array':
            v = (self.zero(u.elem),) * u.len
        elif k == 'tuple':
            v = tuple([self.zero(x) for x in u.tuple])
        else:
            v = None
        t.zero_cache = (v,)
        return v

    def mkconst(self, o):
        t = o.get('t')
        if 'ci' in o:
            u = self.under(t)
            v = int(o['ci'])
            if u.k == 'basic' and u.bits:
                if u.name.startswith('float'):
                    import struct
                    if u.bits == 32:
                        return FloatV(32, struct.unpack('<I', struct.pack('<f', float(v)))[0])
                    return FloatV(64, struct.unpack('<Q', struct.pack('<d', float(v)))[0])
                return norm(v, u.bits, u.signed)
            return v
        if 'cb' in o:
            return bool(o['cb'])
        if 'cs' in o:
            return bytes.fromhex(o['cs'])
        if 'cf' in o:
            return FloatV(self.under(t).bits or 64, int(o['cf']))
        if 'nil' in o:
            return self.zero(t)
        raise Unsupported('constant %r' % (o,))

    # ------------------------------------------------------------------ memory
    def new_obj(self, v, tag=None):
        return Obj(v, self.epoch, tag)

    def load(self, p):
        if p is None:
            raise GoPanic('nil-deref')
        v = p.obj.v
        for i in p.path:
            v = v[i]
        if isinstance(v, list):
            return freeze(v)
        return v

    def store(self, p, val):
        if p is None:
            raise GoPanic('nil-deref')
        if isinstance(val, tuple):
            val = thaw(val)
        obj = p.obj
        path = p.path
        if not path:
            if obj.epoch != self.epoch:
                self.undo.append((obj, None, None, obj.v))
            obj.v = val
            return
        c = obj.v
        for i in path[:-1]:
            if type(c) is ClockList:
                c.ns = None
            c = c[i]
        k = path[-1]
        if type(c) is ClockList:
            c.ns = None
        if obj.epoch != self.epoch:
            self.undo.append((obj, c, k, c[k]))
        c[k] = val

    def rollback(self):
        for obj, c, k, old in reversed(self.undo):
            if isinstance(obj, MapObj):
                # (mapobj, 'd'|'sym', key, old)
                if c == 'd':
                    if old is _MISSING:
                        obj.d.pop(k, None)
                    else:
                        obj.d[k] = old
                elif c == 'sym':
                    obj.sym = old
                elif c == 'arb':
                    obj.arb_cache = old
            elif isinstance(obj, ChanObj):
                obj.items, obj.closed, obj.sent, obj.recvd = old
            elif c is None:
                obj.v = old
            else:
                c[k] = old
        self.undo = []

    def global_ptr(self, name):
        return Ptr(self.globals[name], ())

    def slice_get(self, s, i):
        v = s.obj.v
        for k in s.path:
            v = v[k]
        return v[s.off + i]

    def slice_list(self, s):
        """elements of a slice as a python list (no freeze for scalars)"""
        if s.obj is None or s.len == 0:
            return []
        v = s.obj.v
        for k in s.path:
            v = v[k]
        r = v[s.off:s.off + s.len]
        return [freeze(e) if isinstance(e, list) else e for e in r]

    def slice_set(self, s, i, val):
        self.store(Ptr(s.obj, s.path + (s.off + i,)), val)

    def make_slice_from(self, elems, cap=None):
        n = len(elems)
        cap = n if cap is None else cap
        lst = [thaw(e) if type(e) is tuple else e for e in elems]
        if cap > n:
            lst = lst + [None] * (cap - n)
        return Slice(self.new_obj(lst), (), 0, n, cap)

    def bytes_of(self, v):
        """string value -> tuple of byte values"""
        if type(v) is bytes:
            return tuple(v)
        if type(v) is SymStr:
            return v.bs
        raise Unsupported('opaque string content needed: %r' % (v,))

    def mkstr(self, bs):
        for b in bs:
            if type(b) is not int:
                return SymStr(bs)
        return bytes(bs)

    # ------------------------------------------------------------------ solver / path
    def fresh(self, kind, bits, name=None):
        self.ncounter += 1
        nm = '%s_%d' % (name or kind, self.ncounter)
        if kind == 'bool':
            return z3.Bool(nm)
        return z3.BitVec(nm, bits)

    concrete_vector = None

    def add_nondet(self, kind, bits):
        if self.concrete_vector is not None:
            i = len(self.nondets)
            x = self.concrete_vector[i] if i < len(self.concrete_vector) else 0
            v = bool(x) if kind == 'bool' else int(x) & ((1 << bits) - 1)
            self.nondets.append(v)
            return v
        v = self.fresh(kind, bits, 'nd%d' % len(self.nondets))
        self.nondets.append(v)
        return v

    def run_concrete(self, fname, args, vector, choices=()):
        """re-execute one path with every nondeterministic value fixed (confirmation of a counterexample
        for harnesses that cannot be replayed natively); returns (failed assertion tags, panic kind or None)"""
        self.concrete_vector = list(vector)
        self.concrete_choices = list(choices)
        self.concrete_failures = []
        nv = len(self.violations)
        try:
            out = self.run_path(self.prog.funcs[fname], args, [])
        finally:
            self.concrete_vector = None
        new = self.violations[nv:]
        del self.violations[nv:]
        return [v.tag for v in new], out

    def check(self, *assumptions):
        t0 = time.time()
        self.stats.queries += 1
        self.ext_model = None
        r = self.solver.check(*assumptions)
        if r == z3.unknown and self.opt.get('bv_as_int_fallback'):
            r = self.check_cvc5(assumptions)
        self.stats.solver_s += time.time() - t0
        return r

    xcheck_budget = 0

    def uf_defs_in(self, c):
        return False

    def cross_check(self, ncond, tag):
        """second opinion on a discharged obligation: the same query (path condition and negated assertion), dumped as
        SMT-LIB2 without set-logic, decided by cvc5 and by the system z3 4.8.12; a 'sat' from either is a disagreement"""
        import subprocess
        import tempfile
        import os
        s2 = z3.Solver()
        s2.add(self.solver.assertions())
        s2.add(ncond)
        text = s2.to_smt2()
        for op in ('bvsrem', 'bvsdiv', 'bvudiv', 'bvurem', 'bvsmod'):
            text = text.replace(op + '_i', op).replace(op + '0', op)
        st = self.stats
        st.xchecked = getattr(st, 'xchecked', 0) + 1
        with tempfile.NamedTemporaryFile('w', suffix='.smt2', delete=False) as f:
            f.write(text)
            fn = f.name
        try:
            for name, cmd in (('cvc5', ['cvc5', '--tlimit=5000', fn]), ('z3-4.8.12', ['/usr/bin/z3', '-T:5', fn])):
                try:
                    p = subprocess.run(cmd, capture_output=True, text=True, timeout=20)
                    out = (p.stdout or '').strip().split('\n', 1)[0].strip()
                except subprocess.TimeoutExpired:
                    out = 'timeout'
                if '(error' in (p.stdout or '') and out not in ('unsat', 'sat'):
                    out = 'error'
                key = 'xcheck_' + name.replace('-', '_').replace('.', '_') + '_' + (out if out in ('unsat', 'sat') else 'no_answer')
                setattr(st, key, getattr(st, key, 0) + 1)
                if out == 'sat':
                    self.inconclusive.append('solver disagreement on %s: z3 5.1 unsat, %s sat' % (tag, name))
        finally:
            os.unlink(fn)

    def model(self):
        if self.ext_model is not None:
            return self.ext_model
        return self.solver.model()

    def check_cvc5(self, assumptions):
        """second back end for multiply/divide-by-constant kernels: cvc5 with the integer encoding of bit-vectors"""
        import subprocess
        import tempfile
        s2 = z3.Solver()
        s2.add(self.solver.assertions())
        for a in assumptions:
            s2.add(a)
        text = s2.to_smt2()
        names = []
        for v in self.nondets:
            if is_sym(v):
                names.append(v.decl().name())
        for op in ('bvsrem', 'bvsdiv', 'bvudiv', 'bvurem', 'bvsmod'):
            text = text.replace(op + '_i', op).replace(op + '0', op)
        text = '(set-option :produce-models true)\n(set-logic ALL)\n' + text
        names = [n for n in names if ('(declare-fun %s ' % n) in text]
        self.stats.cvc5_queries = getattr(self.stats, 'cvc5_queries', 0) + 1
        tl = int(self.opt.get('cvc5_timeout_ms', 60000))

        def run(txt):
            import os
            with tempfile.NamedTemporaryFile('w', suffix='.smt2', delete=False) as f:
                f.write(txt)
                fn = f.name
            try:
                p = subprocess.run(['cvc5', '--solve-bv-as-int=sum', '--tlimit=%d' % tl, fn], capture_output=True,
                                   text=True, timeout=tl / 1000 + 10)
                return p.stdout, p.stderr
            except subprocess.TimeoutExpired:
                return '', 'timeout'
            finally:
                os.unlink(fn)
        out, err = run(text)
        if self.opt.get('cvc5_debug'):
            print('CVC5>>', out[:300], err[:300])
            open('/tmp/cvc5_last.smt2', 'w').write(text)
        if '(error' in out or '(error' in err:
            return z3.unknown
        first = out.strip().split('\n', 1)[0].strip() if out.strip() else ''
        if first == 'unsat':
            return z3.unsat
        if first == 'sat':
            vals = {}
            if names:
                out, err = run(text + '\n(get-value (%s))\n' % ' '.join(names))
                if '(error' in out or '(error' in err or not out.startswith('sat'):
                    return z3.unknown
                import re
                for m in re.finditer(r'\((\S+) (#b[01]+|#x[0-9a-fA-F]+|true|false|\(_ bv(\d+) \d+\))\)', out):
                    nm, val = m.group(1), m.group(2)
                    if val.startswith('#b'):
                        vals[nm] = int(val[2:], 2)
                    elif val.startswith('#x'):
                        vals[nm] = int(val[2:], 16)
                    elif val in ('true', 'false'):
                        vals[nm] = 1 if val == 'true' else 0
                    else:
                        vals[nm] = int(m.group(3))
            self.ext_model = ExtModel(vals, self.nondets)
            return z3.sat
        return z3.unknown

    def add(self, c):
        self.solver.add(c)

    def simp_bool(self, c):
        if type(c) is bool:
            return c
        c = z3.simplify(c)
        if z3.is_true(c):
            return True
        if z3.is_false(c):
            return False
        return c

    def branch(self, cond):
        if type(cond) is bool:
            return cond
        cond = self.simp_bool(cond)
        if type(cond) is bool:
            return cond
        if self.pos < len(self.prefix):
            d = self.prefix[self.pos]
            self.pos += 1
            self.trail.append(d)
            if d == 1:
                self.add(cond)
            elif d == 0:
                self.add(z3.Not(cond))
            elif d == 2:
                return True
            else:
                return False
            return d == 1
        self.pos += 1
        # feasibility pruning only: a short time limit; unknown = keep the branch (sound over-approximation,
        # a violation found on such a path still has to reproduce natively)
        self.solver.set('timeout', self.branch_timeout_ms)
        rt = self.check(cond)
        ncond = z3.Not(cond)
        rf = self.check(ncond)
        self.solver.set('timeout', self.timeout_ms)
        if rt == z3.unknown or rf == z3.unknown:
            self.stats.unknown_branches = getattr(self.stats, 'unknown_branches', 0) + 1
        t = rt != z3.unsat
        f = rf != z3.unsat
        if t and f:
            self.stats.forks += 1
            self.pending.append(self.trail + [0])
            self.trail.append(1)
            self.add(cond)
            return True
        if t:
            self.trail.append(2)  # forced true: no constraint needed
            return True
        if f:
            self.trail.append(3)
            return False
        raise PathAbort('infeasible')

    def choose(self, n):
        """n-way nondeterministic choice without constraint; returns index"""
        d = self._choose(n)
        self.choice_trail.append(d)
        return d

    def _choose(self, n):
        if n <= 0:
            raise PathAbort('empty choice')
        if self.concrete_vector is not None:
            d = self.concrete_choices.pop(0) if self.concrete_choices else 0
            return d if d < n else 0
        if self.pos < len(self.prefix):
            d = self.prefix[self.pos]
            self.pos += 1
            self.trail.append(d)
            return d
        self.pos += 1
        for i in range(n - 1, 0, -1):
            self.pending.append(self.trail + [i])
        if n > 1:
            self.stats.forks += n - 1
        self.trail.append(0)
        return 0

    def concretize(self, x, what='value', cap=None):
        """concretise-or-fork a bit-vector term to a python int (unsigned)"""
        if type(x) is int:
            return x
        x = z3.simplify(x)
        if z3.is_bv_value(x):
            return x.as_long()
        if self.pos < len(self.prefix):
            d = self.prefix[self.pos]
            self.pos += 1
            self.trail.append(d)
            if d >= 0:
                self.add(x == BV(d, x.size()))
                return d
            return -d - 1  # unique value, no constraint needed
        self.pos += 1
        cap = cap or self.conc_cap
        vals = []
        self.solver.push()
        try:
            while True:
                r = self.check()
                if r == z3.unknown:
                    raise Unsupported('unknown while concretising ' + what)
                if r == z3.unsat:
                    break
                v = self.model().eval(x, model_completion=True).as_long()
                vals.append(v)
                if len(vals) > cap:
                    raise Unsupported('concretisation cap exceeded for %s' % what)
                self.solver.add(x != BV(v, x.size()))
        finally:
            self.solver.pop()
        if not vals:
            raise PathAbort('infeasible')
        if len(vals) == 1:
            self.trail.append(-vals[0] - 1)
            return vals[0]
        vals.sort()
        self.stats.forks += len(vals) - 1
        for v in reversed(vals[1:]):
            self.pending.append(self.trail + [v])
        self.trail.append(vals[0])
        self.add(x == BV(vals[0], x.size()))
        return vals[0]

    def conc_int(self, x, bits, signed, what='int'):
        if type(x) is int:
            return x
        v = self.concretize(x, what)
        return norm(v, bits, signed)

    def model_vector(self, model):
        vec = []
        for v in self.nondets:
            if isinstance(v, int):
                vec.append(v)
            elif z3.is_bool(v):
                vec.append(1 if z3.is_true(model.eval(v, model_completion=True)) else 0)
            else:
                vec.append(model.eval(v, model_completion=True).as_long())
        return vec

    def report_violation(self, tag, kind, detail=''):
        """the current solver state (pc and negated assertion) is satisfiable: extract a counterexample.
        Summarised functions with a known definition (crcstep) are expanded first, so that the vector
        also violates the assertion under the real function and replays natively."""
        model = None
        if self.uf_defs:
            asr = list(self.solver.assertions())
            if any(has_uf(a) for a in asr):
                s2 = z3.Solver()
                s2.set('timeout', self.timeout_ms)
                for a in asr:
                    s2.add(z3.substitute_funs(a, *self.uf_defs))
                t0 = time.time()
                self.stats.queries += 1
                r = s2.check()
                self.stats.solver_s += time.time() - t0
                if r == z3.unsat:
                    # no counterexample under the real function: the assertion holds on this path for the
                    # interpreted function (decided by the solver with the definition expanded)
                    self.stats.uf_refined = getattr(self.stats, 'uf_refined', 0) + 1
                    return None
                if r == z3.sat:
                    model = s2.model()
                # unknown: fall through to the uninterpreted model (may not replay)
        if model is None:
            r = self.check()
            if r != z3.sat:
                if r == z3.unknown:
                    self.inconclusive.append('unknown at violation %s' % tag)
                return False
            model = self.model()
        vec = self.model_vector(model)
        v = Violation(tag, kind, vec, list(self.trail), detail)
        v.choices = list(self.choice_trail)
        self.violations.append(v)
        return True

    def oneshot(self, extra):
        """one-shot bit-blasting query (full preprocessing), used when the incremental core gives up"""
        s2 = z3.SolverFor('QF_UFBV')
        s2.set('timeout', self.timeout_ms)
        s2.add(self.solver.assertions())
        s2.add(extra)
        t0 = time.time()
        self.stats.queries += 1
        r = s2.check()
        self.stats.solver_s += time.time() - t0
        return r

    def assert_(self, cond, tag):
        st = self.stats
        tf = self.opt.get('tag_filter')
        if tf and not tag.startswith(tuple(tf)):
            # assertion owned by another check that runs the same harness: neither checked nor assumed here
            st.foreign = getattr(st, 'foreign', 0) + 1
            return
        st.obligations += 1
        st.oblig_tags[tag] = st.oblig_tags.get(tag, 0) + 1
        cond = self.simp_bool(cond)
        if cond is True:
            st.trivial += 1
            st.discharged += 1
            return
        if cond is False:
            self.report_violation(tag, 'assert', 'assertion is constant false on this path')
            raise PathAbort('assert false')
        ncond = z3.Not(cond)
        self.solver.set('timeout', self.inc_timeout_ms)
        r = self.check(ncond)
        self.solver.set('timeout', self.timeout_ms)
        if r == z3.unknown:
            r = self.oneshot(ncond)
            if r == z3.sat:
                r = self.check(ncond)  # need the model in the incremental solver
        if r == z3.unsat:
            st.discharged += 1
            if self.xcheck_budget > 0 and not self.uf_defs_in(ncond):
                self.xcheck_budget -= 1
                self.cross_check(ncond, tag)
            if len(st.samples) < 6:
                st.samples.append({'tag': tag, 'obligation': _abbrev(cond), 'path_decisions': len(self.trail),
                                   'verdict': 'unsat (holds)'})
            return
        if r == z3.unknown:
            st.unknown += 1
            self.inconclusive.append('assert %s: solver unknown' % tag)
            self.add(cond)
            return
        self.solver.push()
        self.solver.add(ncond)
        rv = self.report_violation(tag, 'assert', _abbrev(cond))
        self.solver.pop()
        if rv is None:
            st.discharged += 1
        self.add(cond)
        if self.check() == z3.unsat:
            raise PathAbort('assert always false')

    def assume(self, cond):
        cond = self.simp_bool(cond)
        if cond is True:
            return
        if cond is False:
            raise PathAbort('assume false')
        self.add(cond)
        if self.opt.get('check_assumes', True):
            if self.check() == z3.unsat:
                raise PathAbort('assume infeasible')

    # ------------------------------------------------------------------ exploration
    def run_path(self, fn, args, prefix):
        self.solver = z3.Solver()
        self.solver.set('timeout', self.timeout_ms)
        self.prefix = prefix
        self.pos = 0
        self.trail = []
        self.nondets = []
        self.ncounter = 0
        self.spawned = []
        self.path_instrs = 0
        self.callstack = []
        self.choice_trail = []
        self.clock_last = None
        self.clock_count = 0
        self.clock_all = []
        self.path_notes = []
        self.fits = {}
        self.ctx_children = {}
        self.vtime = 0
        self.timer_log = []
        self.timers_pending = False
        self.dial_pending = False
        self.chan_hooks = {}
        self.wg_counters = {}
        self.mutexes = {}
        self.builders = {}
        self.keep = []
        self.syncmaps = {k: dict(v) for k, v in self.syncmaps_base.items()}
        self.sched = None
        self.epoch += 1
        outcome = 'ok'
        self.path_obs = []
        try:
            self.call(fn, list(args))
            self.sample_observations(fn, args)
        except PathAbort as e:
            outcome = 'abort'
            self.stats.paths_aborted += 1
        except GoExit:
            outcome = 'ok'
        except GoPanic as e:
            outcome = 'panic'
            where = ' <- '.join(reversed(self.callstack[-4:]))
            self.report_violation('panic:' + e.kind, 'panic', '%s at %s' % (e.kind, where))
        except Blocked:
            outcome = 'blocked'
            self.inconclusive.append('harness blocked outside verifRunUntilBlocked')
        except Unsupported as e:
            outcome = 'unsupported'
            where = ' <- '.join(reversed(self.callstack[-6:]))
            self.inconclusive.append('unsupported: %s at %s' % (e, where))
        finally:
            if self.sched is not None:
                self.stats.sched_switches = getattr(self.stats, 'sched_switches', 0) + self.sched.switches
                self.stats.goroutines = getattr(self.stats, 'goroutines', 0) + len(self.sched.gors)
                self.sched.kill_all()
                self.sched = None
            self.rollback()
            self.stats.instrs += self.path_instrs
        self.stats.paths += 1
        return outcome

    obs_budget = 0
    obs_samples = []

    def sample_observations(self, fn, args):
        """on a completed path: take a model of the path condition, evaluate the observed terms under it;
        the vector is later run natively and the native observations must be identical."""
        if self.obs_budget <= 0 or not self.path_obs:
            return
        # values that depend on an uninterpreted function cannot be compared with the native run
        for c in self.solver.assertions():
            if has_uf(c):
                return
        self.path_obs = [(t, k, v) for (t, k, v) in self.path_obs
                         if not (has_uf(v) if k == 'u' else any(has_uf(b) for b in v))]
        if not self.path_obs:
            return
        if self.check() != z3.sat:
            return
        m = self.model()
        vec = self.model_vector(m)
        out = []
        for tag, kind, v in self.path_obs:
            if kind == 'u':
                if is_sym(v):
                    if z3.is_bool(v):
                        v = 1 if z3.is_true(m.eval(v, model_completion=True)) else 0
                    else:
                        v = m.eval(v, model_completion=True).as_long()
                elif type(v) is bool:
                    v = 1 if v else 0
                out.append('%s=%d' % (tag, v))
            else:
                bs = []
                for b in v:
                    if is_sym(b):
                        b = m.eval(b, model_completion=True).as_long()
                    bs.append(b)
                out.append('%s=%s' % (tag, bytes(bs).hex()))
        self.obs_budget -= 1
        self.obs_samples.append({'vector': vec, 'obs': out})

    def explore(self, fname, args=(), max_paths=None, deadline=None, prefixes=None):
        """DFS over all paths of harness fname(args). Returns leftover prefixes if stopped early."""
        fn = self.prog.funcs[fname]
        self.pending = list(prefixes) if prefixes is not None else [[]]
        n = 0
        while self.pending:
            if (max_paths is not None and n >= max_paths) or (deadline is not None and time.time() > deadline):
                break
            prefix = self.pending.pop()
            self.run_path(fn, args, prefix)
            n += 1
            if len(self.inconclusive) > 50 or len(self.violations) > 20:
                break
        left = self.pending
        self.pending = []
        return left

    # ------------------------------------------------------------------ interpreter
    def call_value(self, f, args):
        """call a func value (FuncRef / Closure)"""
        if f is None:
            raise GoPanic('nil-func-call')
        if type(f) is FuncRef:
            return self.call(self.prog.funcs[f.name], args)
        if type(f) is Closure:
            return self.call(self.prog.funcs[f.fn], args, f.binds)
        if callable(f):
            return f(self, args)
        raise Unsupported('call of %r' % (f,))

    def invoke(self, recv, method, args):
        if recv is None:
            raise GoPanic('nil-deref', 'invoke %s on nil interface' % method)
        if type(recv) is not Iface:
            raise Unsupported('invoke on non-interface %r' % (recv,))
        h = self.special_invoke.get(recv.t)
        if h is not None:
            return h(self, recv, method, args)
        t = self.types.get(recv.t)
        if t is None or not t.methods or method not in t.methods:
            raise Unsupported('no method %s on dynamic type %s' % (method, recv.t))
        return self.call(self.prog.funcs[t.methods[method]], [recv.v] + args)

    special_invoke = {}
    sched = None

    def call(self, fn, args, binds=(), raw=False):
        name = fn.name
        it = None if raw else self.intrinsics.get(name)
        if it is None and not raw and fn.short.startswith('verif'):
            it = self.intrinsics.get('@' + fn.short.split('[', 1)[0])
        if it is not None:
            return it(self, args)
        if not fn.hasbody:
            raise Unsupported('no body and no intrinsic for %s' % name)
        if not fn.decoded:
            self.prog.decode(fn, self.mkconst)
            self.stats.funcs.add(name)
        if len(self.callstack) > 200:
            raise Unsupported('call depth')
        self.callstack.append(name)
        regs = [None] * fn.nvalues
        n = len(args)
        regs[:n] = args
        if binds:
            regs[n:n + len(binds)] = binds
        blocks = fn.blocks
        block = blocks[0]
        prev = -1
        defers = []
        gptr = self.globals
        H = self.handlers
        try:
            while True:
                instrs = block.instrs
                self.path_instrs += len(instrs)
                if self.path_instrs > self.max_instrs:
                    raise Unsupported('instruction ceiling')
                i = 0
                # phis first (parallel assignment)
                if instrs[0].op == 'Phi':
                    ei = block.preds.index(prev)
                    vals = []
                    while instrs[i].op == 'Phi':
                        o = instrs[i].d['edges'][ei]
                        t = type(o)
                        vals.append(regs[o] if t is int else (o.v if t is Const else Ptr(gptr[o.name], ())))
                        i += 1
                    for k in range(i):
                        regs[instrs[k].r] = vals[k]
                nxt = None
                for ins in instrs[i:]:
                    op = ins.op
                    h = H.get(op)
                    if h is not None:
                        # generic value-producing instruction
                        o = ins.x
                        if o is None:
                            x = None
                        else:
                            t = type(o)
                            x = regs[o] if t is int else (o.v if t is Const else Ptr(gptr[o.name], ()))
                        o = ins.y
                        if o is None:
                            y = None
                        else:
                            t = type(o)
                            y = regs[o] if t is int else (o.v if t is Const else Ptr(gptr[o.name], ()))
                        r = h(self, ins, x, y)
                        if ins.r >= 0:
                            regs[ins.r] = r
                        continue
                    if op == 'Call':
                        r = self.do_call(ins, regs)
                        regs[ins.r] = r
                    elif op == 'If':
                        o = ins.x
                        t = type(o)
                        c = regs[o] if t is int else o.v
                        if type(c) is not bool:
                            c = self.branch(c)
                        nxt = block.succs[0] if c else block.succs[1]
                        break
                    elif op == 'Jump':
                        nxt = block.succs[0]
                        break
                    elif op == 'Return':
                        a = ins.d['args']
                        if len(a) == 0:
                            return None
                        if len(a) == 1:
                            return self.ev(a[0], regs)
                        return tuple([self.ev(o, regs) for o in a])
                    elif op == 'Store':
                        self.store(self.ev(ins.x, regs), self.ev(ins.y, regs))
                    elif op == 'Slice':
                        regs[ins.r] = _slice_instr(self, ins, regs)
                    elif op == 'MakeClosure':
                        f = self.ev(ins.d['fnv'], regs)
                        regs[ins.r] = Closure(f.name, [self.ev(o, regs) for o in ins.d['args']])
                    elif op == 'Defer':
                        defers.append(self.prep_call(ins, regs))
                    elif op == 'RunDefers':
                        while defers:
                            self.run_prepared(defers.pop())
                    elif op == 'Go':
                        p = self.prep_call(ins, regs)
                        self.spawned.append(p)
                        if self.sched is not None:
                            self.sched.spawn(lambda p=p: self.run_prepared(p), name='go@%s:%d' % (fn.short, ins.ln))
                    elif op == 'Panic':
                        raise GoPanic('explicit', self.ev(ins.x, regs))
                    elif op == 'Select':
                        regs[ins.r] = self.do_select(ins, regs)
                    elif op == 'MapUpdate':
                        self.map_update(self.ev(ins.d['m'], regs), self.ev(ins.x, regs), self.ev(ins.y, regs))
                    elif op == 'Send':
                        self.chan_send(self.ev(ins.x, regs), self.ev(ins.y, regs))
                    else:
                        raise Unsupported('instruction %s' % op)
                prev = block.i
                block = blocks[nxt]
        finally:
            self.callstack.pop()

    def ev(self, o, regs):
        if o is None:
            return None
        t = type(o)
        if t is int:
            return regs[o]
        if t is Const:
            return o.v
        return Ptr(self.globals[o.name], ())

    def prep_call(self, ins, regs):
        d = ins.d
        args = [self.ev(a, regs) for a in d['args']]
        if d.get('invoke'):
            return ('invoke', self.ev(d['recv'], regs), d['method'], args)
        return ('call', self.ev(d['fnv'], regs), args)

    def run_prepared(self, p):
        if p[0] == 'invoke':
            return self.invoke(p[1], p[2], p[3])
        f = p[1]
        if type(f) is Builtin:
            return self.builtin(f.name, p[2], None)
        return self.call_value(f, p[2])

    def do_call(self, ins, regs):
        d = ins.d
        args = [self.ev(a, regs) for a in d['args']]
        if d.get('invoke'):
            return self.invoke(self.ev(d['recv'], regs), d['method'], args)
        fo = d['fnv']
        f = regs[fo] if type(fo) is int else fo.v
        if self.init_mode:
            return self.init_call(f, args, ins)
        if type(f) is FuncRef:
            return self.call(self.prog.funcs[f.name], args)
        if type(f) is Builtin:
            return self.builtin(f.name, args, ins)
        return self.call_value(f, args)

    def init_call(self, f, args, ins):
        if type(f) is FuncRef:
            fn = self.prog.funcs[f.name]
            if fn.short == 'init':
                return None  # dependencies are initialised explicitly, in order
        try:
            if type(f) is FuncRef:
                return self.call(self.prog.funcs[f.name], args)
            if type(f) is Builtin:
                return self.builtin(f.name, args, ins)
            return self.call_value(f, args)
        except (Unsupported, TypeError, AttributeError, KeyError, IndexError, z3.Z3Exception) as e:
            self.init_notes.append('%s: %s' % (getattr(f, 'name', f), e))
            n = ins.d.get('nres', 1)
            return POISON if n <= 1 else (POISON,) * n

    # ------------------------------------------------------------------ builtins
    def builtin(self, name, args, ins):
        if name == 'len':
            v = args[0]
            t = type(v)
            if t is Slice:
                if v.obj is not None and v.obj.tag == 'opaquestr':
                    raise Unsupported('len of opaque bytes')
                return v.len
            if t is bytes or t is SymStr:
                return len(v)
            if t is MapObj:
                if v.arbitrary:
                    raise Unsupported('len of arbitrary map')
                # map_update forks on equality with every existing key, so on this path the keys are pairwise distinct
                return len(v.d) + len(v.sym)
            if v is None:
                return 0
            if t is ChanObj:
                if v.symlen is not None:
                    return v.symlen
                return len(v.items)
            if t is tuple:
                return len(v)
            if t is Ptr:  # pointer to array
                return len(self.load(v))
            raise Unsupported('len of %r' % (v,))
        if name == 'cap':
            v = args[0]
            if type(v) is Slice:
                return v.cap
            if type(v) is ChanObj:
                return v.cap
            if v is None:
                return 0
            if type(v) is tuple:
                return len(v)
            raise Unsupported('cap of %r' % (v,))
        if name == 'append':
            return self.do_append(args[0], args[1])
        if name == 'copy':
            dst, src = args
            if type(src) is Slice:
                se = self.slice_list(src)
            else:
                se = list(self.bytes_of(src))
            n = min(dst.len, len(se))
            for i in range(n):
                self.slice_set(dst, i, se[i])
            return n
        if name in ('print', 'println'):
            return None
        if name == 'close':
            ch = args[0]
            if ch is None:
                raise GoPanic('close-nil-chan')
            if ch.closed:
                raise GoPanic('close-closed-chan')
            self.chan_touch(ch)
            ch.closed = True
            return None
        if name == 'delete':
            self.map_delete(args[0], args[1])
            return None
        if name == 'recover':
            return None
        if name == 'ssa:wrapnilchk':
            if args[0] is None:
                raise GoPanic('nil-deref')
            return args[0]
        if name in ('min', 'max'):
            a = args[0]
            t = self.types[ins.d['argt'][0]].u
            for b in args[1:]:
                if type(a) is int and type(b) is int:
                    a = min(a, b) if name == 'min' else max(a, b)
                else:
                    c = self.cmp_int('<', a, b, t.bits, t.signed)
                    if name == 'max':
                        c = self.not_(c)
                    a = self.ite(c, a, b, t.bits)
            return a
        raise Unsupported('builtin %s' % name)

    def do_append(self, s, extra):
        if type(extra) is Slice:
            ee = self.slice_list(extra)
        elif extra is None:
            ee = []
        else:
            ee = list(self.bytes_of(extra))
        if not ee:
            return s
        n = len(ee)
        if s.obj is not None and s.len + n <= s.cap:
            r = Slice(s.obj, s.path, s.off, s.len + n, s.cap)
            for i in range(n):
                self.slice_set(r, s.len + i, ee[i])
            return r
        old = self.slice_list(s)
        need = s.len + n
        newcap = max(need, 2 * s.cap if s.cap < 256 else s.cap + s.cap // 4)
        lst = [thaw(e) if type(e) is tuple else e for e in old + ee]
        # unknown spare capacity content: zero of element type is what Go gives
        zero = 0
        if lst:
            zero = _zero_like(lst[0])
        lst += [zero] * (newcap - need)
        return Slice(self.new_obj(lst), (), 0, need, newcap)

    # ------------------------------------------------------------------ int / bool helpers
    def tobv(self, v, bits):
        if type(v) is int:
            return BV(v & ((1 << bits) - 1), bits)
        return v

    def not_(self, c):
        if type(c) is bool:
            return not c
        return z3.Not(c)

    def and_(self, a, b):
        if a is False or b is False:
            return False
        if a is True:
            return b
        if b is True:
            return a
        return z3.And(a, b)

    def or_(self, a, b):
        if a is True or b is True:
            return True
        if a is False:
            return b
        if b is False:
            return a
        return z3.Or(a, b)

    def ite(self, c, a, b, bits):
        if type(c) is bool:
            return a if c else b
        if bits == 0:  # bools
            a = z3.BoolVal(a) if type(a) is bool else a
            b = z3.BoolVal(b) if type(b) is bool else b
            return z3.If(c, a, b)
        return z3.If(c, self.tobv(a, bits), self.tobv(b, bits))

    def cmp_int(self, op, a, b, bits, signed):
        if type(a) is int and type(b) is int:
            if op == '==':
                return a == b
            if op == '!=':
                return a != b
            if op == '<':
                return a < b
            if op == '<=':
                return a <= b
            if op == '>':
                return a > b
            return a >= b
        a = self.tobv(a, bits)
        b = self.tobv(b, bits)
        if op == '==':
            return a == b
        if op == '!=':
            return a != b
        if signed:
            if op == '<':
                return a < b
            if op == '<=':
                return a <= b
            if op == '>':
                return a > b
            return a >= b
        if op == '<':
            return z3.ULT(a, b)
        if op == '<=':
            return z3.ULE(a, b)
        if op == '>':
            return z3.UGT(a, b)
        return z3.UGE(a, b)

    def arith(self, op, a, b, bits, signed, ybits=None, ysigned=False):
        ca = type(a) is int
        cb = type(b) is int
        if ca and cb:
            if op == '+':
                r = a + b
            elif op == '-':
                r = a - b
            elif op == '*':
                r = a * b
            elif op == '&':
                r = a & b
            elif op == '|':
                r = a | b
            elif op == '^':
                r = a ^ b
            elif op == '&^':
                r = a & ~b
            elif op == '<<':
                if b < 0:
                    raise GoPanic('negative-shift')
                r = 0 if b >= bits else a << b
            elif op == '>>':
                if b < 0:
                    raise GoPanic('negative-shift')
                r = a >> min(b, bits)
            elif op == '/':
                if b == 0:
                    raise GoPanic('div-by-zero')
                q = abs(a) // abs(b)
                r = q if (a >= 0) == (b >= 0) else -q
            elif op == '%':
                if b == 0:
                    raise GoPanic('div-by-zero')
                q = abs(a) // abs(b)
                q = q if (a >= 0) == (b >= 0) else -q
                r = a - q * b
            else:
                raise Unsupported('binop ' + op)
            return norm(r, bits, signed)
        if op in ('<<', '>>'):
            a = self.tobv(a, bits)
            if cb:
                if b < 0:
                    raise GoPanic('negative-shift')
                if b == 0:
                    return a
                if b >= bits:
                    if op == '>>' and signed:
                        b = bits - 1
                    else:
                        return 0
                if op == '<<':
                    return a << b
                return (a >> b) if signed else z3.LShR(a, b)
            yb = b.size()
            if ysigned:
                # negative shift count panics
                if self.branch(b < 0):
                    raise GoPanic('negative-shift')
            if yb < bits:
                sh = z3.ZeroExt(bits - yb, b)
                big = False
            elif yb > bits:
                sh = z3.Extract(bits - 1, 0, b)
                big = z3.UGE(b, BV(bits, yb))
            else:
                sh = b
                big = False
            if op == '<<':
                r = a << sh
                z = BV(0, bits)
            elif signed:
                r = a >> sh
                z = a >> BV(bits - 1, bits)
            else:
                r = z3.LShR(a, sh)
                z = BV(0, bits)
            if big is False:
                return r
            return z3.If(big, z, r)
        if op in ('/', '%'):
            if cb:
                if b == 0:
                    raise GoPanic('div-by-zero')
            else:
                if self.branch(b == BV(0, bits)):
                    raise GoPanic('div-by-zero')
        a = self.tobv(a, bits)
        b = self.tobv(b, bits)
        if op == '+':
            return a + b
        if op == '-':
            return a - b
        if op == '*':
            return a * b
        if op == '&':
            if cb and b == (1 << bits) - 1:
                return a
            r = a & b
            if self.aided and cb and self.valid(r == a):
                return a
            return r
        if op == '|':
            return a | b
        if op == '^':
            return a ^ b
        if op == '&^':
            return a & ~b
        if op == '/':
            return (a / b) if signed else z3.UDiv(a, b)
        if op == '%':
            return z3.SRem(a, b) if signed else z3.URem(a, b)
        raise Unsupported('binop ' + op)

    def convert_int(self, v, sbits, ssigned, dbits, dsigned):
        if type(v) is int:
            return norm(v, dbits, dsigned)
        if dbits == sbits:
            return v
        if dbits < sbits:
            r = z3.simplify(z3.Extract(dbits - 1, 0, v))
            if self.aided and is_sym(r) and not z3.is_bv_value(r):
                # solver-aided simplification: does the value provably fit the narrower type on this path?
                back = z3.SignExt(sbits - dbits, r) if dsigned else z3.ZeroExt(sbits - dbits, r)
                if self.valid(back == v):
                    self.fits[r.get_id()] = (v, dsigned, r)
            return r
        if self.aided:
            f = self.fits.get(v.get_id())
            if f is not None and f[1] == ssigned and f[0].size() == dbits:
                return f[0]
        if ssigned:
            return z3.SignExt(dbits - sbits, v)
        return z3.ZeroExt(dbits - sbits, v)

    def valid(self, c):
        """c holds on every model of the current path condition (one solver query; unknown counts as no)"""
        c = self.simp_bool(c)
        if type(c) is bool:
            return c
        return self.check(z3.Not(c)) == z3.unsat

    # value equality (Go ==) -> bool | BoolRef
    def val_eq(self, a, b):
        ta = type(a)
        tb = type(b)
        if ta is int and tb is int:
            return a == b
        if ta is bool and tb is bool:
            return a == b
        if a is None or b is None:
            if a is None and b is None:
                return True
            o = b if a is None else a
            if type(o) is Slice:
                return o.obj is None
            return False
        if ta is Slice or tb is Slice:
            # only comparison with nil is legal in Go
            if ta is Slice and tb is Slice and (a.obj is None or b.obj is None):
                return (a.obj is None) == (b.obj is None)
            raise Unsupported('slice comparison')
        if is_sym(a) or is_sym(b):
            if z3.is_bool(a) or z3.is_bool(b) or ta is bool or tb is bool:
                a2 = z3.BoolVal(a) if ta is bool else a
                b2 = z3.BoolVal(b) if tb is bool else b
                return a2 == b2
            bits = a.size() if is_sym(a) else b.size()
            return self.tobv(a, bits) == self.tobv(b, bits)
        if ta is tuple and tb is tuple:
            r = True
            for x, y in zip(a, b):
                r = self.and_(r, self.val_eq(x, y))
                if r is False:
                    return False
            return r
        if ta is bytes and tb is bytes:
            return a == b
        if (ta is bytes or ta is SymStr) and (tb is bytes or tb is SymStr):
            ba = self.bytes_of(a)
            bb = self.bytes_of(b)
            if len(ba) != len(bb):
                return False
            r = True
            for x, y in zip(ba, bb):
                r = self.and_(r, self.val_eq(x, y))
                if r is False:
                    return False
            return r
        if ta is OpaqueStr or tb is OpaqueStr:
            if a is b:
                return True
            if ta is OpaqueStr and tb is OpaqueStr and a.tag == 'dec' and b.tag == 'dec' and a.parts[1:] == b.parts[1:]:
                return self.val_eq(a.parts[0], b.parts[0])  # decimal rendering is injective
            o, c = (a, b) if ta is OpaqueStr else (b, a)
            if o.tag == 'dec' and type(c) is bytes:
                # a decimal token equals a concrete text only if that text is the canonical decimal of some n
                import re
                if re.fullmatch(rb'-?(0|[1-9][0-9]*)', c) and c != b'-0':
                    n = int(c)
                    bits, signed = o.parts[1], o.parts[2]
                    lo, hi = (-(1 << (bits - 1)), (1 << (bits - 1)) - 1) if signed else (0, (1 << bits) - 1)
                    if lo <= n <= hi:
                        return self.val_eq(o.parts[0], norm(n, bits, signed))
                return False
            raise Unsupported('comparison of opaque strings')
        if ta is Ptr and tb is Ptr:
            return a == b
        if ta is Iface and tb is Iface:
            if a.t != b.t:
                return False
            return self.val_eq(a.v, b.v)
        if ta is FloatV and tb is FloatV:
            if type(a.v) is int and type(b.v) is int:
                return _float_eq(a, b)
            raise Unsupported('symbolic float comparison')
        if ta is not tb:
            return False
        if ta in (MapObj, ChanObj, Obj):
            return a is b
        if ta is FuncRef or ta is Closure:
            raise Unsupported('func comparison')
        if ta is OpaqueErr:
            return a is b
        if ta is ReflectType:
            return a == b
        raise Unsupported('equality of %r and %r' % (a, b))

    # ------------------------------------------------------------------ maps
    def map_key(self, k):
        """return hashable python key for a concrete key or None when symbolic"""
        t = type(k)
        if t in (int, bool, bytes):
            return k
        if t is Ptr:
            return k
        if t is tuple:
            r = []
            for e in k:
                h = self.map_key(e)
                if h is None and e is not None:
                    return None
                r.append(h)
            return ('T',) + tuple(r)
        if t is Iface:
            h = self.map_key(k.v)
            if h is None and k.v is not None:
                return None
            return ('I', k.t, h)
        if k is None:
            return ('nil',)
        if t in (ChanObj, MapObj, OpaqueErr):
            return ('O', id(k))
        if t is FloatV and type(k.v) is int:
            return ('F', k.bits, k.v)
        return None

    def map_touch(self, m, which, key, old):
        if m.epoch != self.epoch:
            self.undo.append((m, which, key, old))

    def map_update(self, m, k, v):
        if m is None:
            raise GoPanic('nil-map-write')
        if m.arbitrary:
            return self.arb_map_update(m, k, v)
        h = self.map_key(k)
        if h is not None and not m.sym:
            self.map_touch(m, 'd', h, m.d.get(h, _MISSING))
            m.d[h] = (k, v)
            return
        # symbolic key, or concrete key in a map that already has symbolic keys
        self.map_touch(m, 'sym', None, list(m.sym))
        # fork on equality with each existing key
        for hk, (ek, ev) in list(m.d.items()):
            if self.branch(self.val_eq(ek, k)):
                self.map_touch(m, 'd', hk, m.d[hk])
                m.d[hk] = (ek, v)
                return
        for idx, (ek, ev) in enumerate(m.sym):
            if self.branch(self.val_eq(ek, k)):
                m.sym = m.sym[:idx] + [(ek, v)] + m.sym[idx + 1:]
                return
        m.sym = m.sym + [(k, v)]

    def map_lookup(self, m, k):
        """returns (value or None, found bool)"""
        if m is None:
            return None, False
        if m.arbitrary:
            return self.arb_map_lookup(m, k)
        h = self.map_key(k)
        if h is not None:
            e = m.d.get(h)
            if e is not None:
                return e[1], True
            for ek, ev in m.sym:
                if self.branch(self.val_eq(ek, k)):
                    return ev, True
            return None, False
        if is_sym(k) and z3.is_bv(k) and not m.sym and len(m.d) > 3:
            # key pinned to one value by the path condition? then a direct lookup (2 queries instead of 2 per entry)
            u = self.unique_value(k)
            if u is not None:
                for cand in (u, norm(u, k.size(), True)):
                    e = m.d.get(cand)
                    if e is not None:
                        return e[1], True
                return None, False
        for hk, (ek, ev) in list(m.d.items()):
            if self.branch(self.val_eq(ek, k)):
                return ev, True
        for ek, ev in m.sym:
            if self.branch(self.val_eq(ek, k)):
                return ev, True
        return None, False

    def unique_value(self, x):
        """the single value x can take under the path condition, or None"""
        x = z3.simplify(x)
        if z3.is_bv_value(x):
            return x.as_long()
        if self.check() != z3.sat:
            return None
        v = self.model().eval(x, model_completion=True).as_long()
        if self.check(x != BV(v, x.size())) == z3.unsat:
            return v
        return None

    def map_delete(self, m, k):
        if m is None:
            return
        if m.arbitrary:
            return self.arb_map_delete(m, k)
        h = self.map_key(k)
        if h is not None and not m.sym:
            if h in m.d:
                self.map_touch(m, 'd', h, m.d[h])
                del m.d[h]
            return
        # symbolic key (or a map holding symbolic keys): fork on equality with each existing key
        for hk, (ek, ev) in list(m.d.items()):
            if self.branch(self.val_eq(ek, k)):
                self.map_touch(m, 'd', hk, m.d[hk])
                del m.d[hk]
                return
        for idx, (ek, ev) in enumerate(m.sym):
            if self.branch(self.val_eq(ek, k)):
                self.map_touch(m, 'sym', None, list(m.sym))
                m.sym = m.sym[:idx] + m.sym[idx + 1:]
                return

    # arbitrary pre-state maps (C16): fresh (value, ok) per distinct key, remembered
    def arb_map_lookup(self, m, k):
        cache = m.arb_cache or []
        for ek, ev, eok in cache:
            if self.branch(self.val_eq(ek, k)):
                return ev, eok
        gen = self.arb_value_gen
        ok = self.branch(self.add_nondet('bool', 0))
        v = gen(self, m.vt) if ok else None
        self.map_touch(m, 'arb', None, m.arb_cache)
        m.arb_cache = cache + [(k, v, ok)]
        return v, ok

    def arb_map_update(self, m, k, v):
        cache = m.arb_cache or []
        self.map_touch(m, 'arb', None, m.arb_cache)
        for idx, (ek, ev, eok) in enumerate(cache):
            if self.branch(self.val_eq(ek, k)):
                m.arb_cache = cache[:idx] + [(ek, v, True)] + cache[idx + 1:]
                return
        m.arb_cache = cache + [(k, v, True)]

    def arb_map_delete(self, m, k):
        cache = m.arb_cache or []
        self.map_touch(m, 'arb', None, m.arb_cache)
        for idx, (ek, ev, eok) in enumerate(cache):
            if self.branch(self.val_eq(ek, k)):
                m.arb_cache = cache[:idx] + [(ek, None, False)] + cache[idx + 1:]
                return
        m.arb_cache = cache + [(k, None, False)]

    arb_value_gen = None

    # ------------------------------------------------------------------ channels (kernel mode)
    def chan_touch(self, ch):
        if ch.epoch != self.epoch:
            self.undo.append((ch, None, None, (list(ch.items), ch.closed, ch.sent, ch.recvd)))

    def chan_can_send(self, ch):
        """bool | BoolRef: a send would not block"""
        if ch is None:
            return False
        if ch.closed:
            return True  # would panic
        if ch.sink:
            return True
        if ch.symlen is not None:
            return self.cmp_int('<', self.arith('+', ch.symlen, len(ch.items), 64, True), ch.cap, 64, True)
        return len(ch.items) < ch.cap

    def chan_can_recv(self, ch):
        if ch is None:
            return False
        if ch.closed or ch.items:
            return True
        return False

    def in_goroutine(self):
        return self.sched is not None and self.sched.cur is not None

    def _truth(self, c):
        return c if type(c) is bool else self.branch(c)

    def sched_send(self, ch, v, from_select=False):
        S = self.sched
        if ch is None:
            S.block(lambda: False, what='send on nil channel')
        if ch.closed:
            raise GoPanic('send-on-closed-chan')
        if ch.sink:
            self.chan_touch(ch)
            ch.items.append(v)
            ch.sent += 1
            hook = self.chan_hooks.get(id(ch))
            if hook is not None:
                self.call_value(hook, [v])
            return
        if ch.cap > 0 or ch.symlen is not None:
            S.block(lambda: ch.closed or self._truth(self.chan_can_send(ch)), what='send on full channel')
            if ch.closed:
                raise GoPanic('send-on-closed-chan')
            self.chan_touch(ch)
            ch.items.append(v)
            ch.sent += 1
            return
        # unbuffered: offer the value, then wait until a receiver has taken it
        self.chan_touch(ch)
        ch.items.append(v)
        ch.sent += 1
        mine = ch.sent
        S.block(lambda: ch.recvd >= mine, what='send on unbuffered channel (no receiver)')

    def timer_elapsed(self, d):
        """a wait on a time.Timer is over: log its duration, advance virtual time"""
        self.timer_log.append(d)
        if type(d) is int and d > 0:
            self.vtime += d

    def sched_recv(self, ch, commaok, elem_t):
        S = self.sched
        if ch is None:
            S.block(lambda: False, what='receive on nil channel')
        S.block(lambda: bool(ch.items) or ch.closed, waitrecv=(ch,), what='receive')
        if ch.items:
            self.chan_touch(ch)
            v = ch.items.pop(0)
            ch.recvd += 1
            if ch.timer_d is not None:
                self.timer_elapsed(ch.timer_d)
            return (v, True) if commaok else v
        z = self.zero(elem_t)
        return (z, False) if commaok else z

    def chan_send(self, ch, v):
        if self.in_goroutine():
            return self.sched_send(ch, v)
        if ch is None:
            raise Blocked()
        if ch.closed:
            raise GoPanic('send-on-closed-chan')
        c = self.chan_can_send(ch)
        if type(c) is not bool:
            c = self.branch(c)
        if not c:
            raise Blocked()
        self.chan_touch(ch)
        ch.items.append(v)
        ch.sent += 1
        hook = self.chan_hooks.get(id(ch))
        if hook is not None:
            self.call_value(hook, [v])

    def chan_recv(self, ch, commaok, elem_t):
        if self.in_goroutine():
            return self.sched_recv(ch, commaok, elem_t)
        if ch is None:
            raise Blocked()
        if self.sched is not None and not ch.items and not ch.closed:
            # the harness itself receives: it is a waiting receiver while the goroutines run on
            self.sched.main_waitrecv = (ch,)
            try:
                self.sched.run(until=lambda: bool(ch.items) or ch.closed)
            finally:
                self.sched.main_waitrecv = ()
        if ch.items:
            self.chan_touch(ch)
            v = ch.items.pop(0)
            ch.recvd += 1
            if ch.timer_d is not None:
                self.timer_elapsed(ch.timer_d)
            return (v, True) if commaok else v
        if ch.closed:
            z = self.zero(elem_t)
            return (z, False) if commaok else z
        raise Blocked()

    def do_select(self, ins, regs):
        d = ins.d
        states = d['states'] or []
        gor = self.in_goroutine()
        chans = [self.ev(st['chan'], regs) for st in states]

        def ready_cases():
            r = []
            for idx, st in enumerate(states):
                ch = chans[idx]
                if st['dir'] == 1:  # send
                    if gor and ch is not None and not ch.sink and not ch.closed and ch.cap == 0 and ch.symlen is None:
                        c = self.sched.receivers_waiting(ch, exclude=self.sched.cur)
                    else:
                        c = self.chan_can_send(ch)
                else:
                    c = self.chan_can_recv(ch)
                if type(c) is not bool:
                    c = self.branch(c)
                if c:
                    r.append((idx, st, ch))
            return r
        ready = ready_cases()
        if gor and not ready and d['blocking']:
            box = []

            def pred():
                box[:] = ready_cases()
                return bool(box)
            self.sched.block(pred, waitrecv=tuple(c for c, st in zip(chans, states) if st['dir'] != 1 and c is not None),
                             what='select on %d cases' % len(states))
            ready = list(box)
        tt = self.types[ins.t].u.tuple
        nrecv = len(tt) - 2

        def result(index, recvok, recvvals):
            r = [index, recvok]
            k = 0
            for idx2, st2 in enumerate(states):
                if st2['dir'] != 1:
                    if recvvals is not None and idx2 == recvvals[0]:
                        r.append(recvvals[1])
                    else:
                        r.append(self.zero(tt[2 + k]))
                    k += 1
            return tuple(r)
        if not ready:
            if not d['blocking']:
                return result(-1, False, None)
            raise Blocked()
        pick = ready[self.choose(len(ready))] if len(ready) > 1 else ready[0]
        idx, st, ch = pick
        if st['dir'] == 1:
            self.chan_send(ch, self.ev(st['send'], regs))
            return result(idx, False, None)
        # which recv slot
        k = 0
        for idx2, st2 in enumerate(states):
            if idx2 == idx:
                break
            if st2['dir'] != 1:
                k += 1
        v, ok = self.chan_recv(ch, True, tt[2 + k])
        return result(idx, ok, (idx, v))


_MISSING = object()


class ExtModel:
    """model returned by the external solver: values of the nondet constants"""

    def __init__(self, vals, nondets):
        self.subs = []
        for v in nondets:
            if not is_sym(v):
                continue
            x = vals.get(v.decl().name(), 0)
            if z3.is_bool(v):
                self.subs.append((v, z3.BoolVal(bool(x))))
            else:
                self.subs.append((v, BV(x, v.size())))

    def eval(self, e, model_completion=True):
        return z3.simplify(z3.substitute(e, *self.subs))


def has_uf(e):
    if not is_sym(e):
        return False
    seen = set()
    stack = [e]
    while stack:
        x = stack.pop()
        i = x.get_id()
        if i in seen:
            continue
        seen.add(i)
        if z3.is_app(x):
            if x.decl().kind() == z3.Z3_OP_UNINTERPRETED and x.num_args() > 0:
                return True
            stack.extend(x.children())
    return False


def _zero_like(v):
    if type(v) is int or is_sym(v):
        return 0
    if type(v) is bool:
        return False
    if type(v) is bytes:
        return b''
    if type(v) is list:
        return [_zero_like(e) for e in v]
    return None


def _float_eq(a, b):
    import struct
    if a.bits == 32:
        fa = struct.unpack('<f', struct.pack('<I', a.v))[0]
        fb = struct.unpack('<f', struct.pack('<I', b.v))[0]
    else:
        fa = struct.unpack('<d', struct.pack('<Q', a.v))[0]
        fb = struct.unpack('<d', struct.pack('<Q', b.v))[0]
    return fa == fb


def _abbrev(e, n=300):
    s = str(e).replace('\n', ' ')
    s = ' '.join(s.split())
    return s if len(s) <= n else s[:n] + '...'


# ---------------------------------------------------------------------- instruction handlers
def h_alloc(E, ins, x, y):
    return Ptr(E.new_obj(thaw(E.zero(ins.d['et']))), ())


def h_binop(E, ins, x, y):
    d = ins.d
    op = d['bop']
    xt = E.types[d['xt']].u
    k = xt.k
    if k == 'basic':
        n = xt.name
        if xt.bits and not n.startswith('float') and n != 'untyped float':
            if op in ('==', '!=', '<', '<=', '>', '>='):
                return E.cmp_int(op, x, y, xt.bits, xt.signed)
            if op in ('<<', '>>'):
                yt = E.types[d['yt']].u
                return E.arith(op, x, y, xt.bits, xt.signed, yt.bits, yt.signed)
            return E.arith(op, x, y, xt.bits, xt.signed)
        if n in ('bool', 'untyped bool'):
            if op == '==':
                return E.val_eq(x, y)
            if op == '!=':
                return E.not_(E.val_eq(x, y))
        if n in ('string', 'untyped string'):
            if op == '+':
                if type(x) is bytes and type(y) is bytes:
                    return x + y
                if type(x) is OpaqueStr or type(y) is OpaqueStr:
                    return OpaqueStr('concat', (x, y))
                return E.mkstr(E.bytes_of(x) + E.bytes_of(y))
            if op == '==':
                return E.val_eq(x, y)
            if op == '!=':
                return E.not_(E.val_eq(x, y))
            if type(x) is bytes and type(y) is bytes:
                if op == '<':
                    return x < y
                if op == '<=':
                    return x <= y
                if op == '>':
                    return x > y
                if op == '>=':
                    return x >= y
        if n.startswith('float') or n == 'untyped float':
            return E.float_binop(op, x, y, xt.bits)
        raise Unsupported('binop %s on %s' % (op, n))
    if op == '==':
        return E.val_eq(x, y)
    if op == '!=':
        return E.not_(E.val_eq(x, y))
    raise Unsupported('binop %s on kind %s' % (op, k))


def h_unop(E, ins, x, y):
    d = ins.d
    op = d['uop']
    if op == '*':
        return E.load(x)
    if op == '!':
        return E.not_(x)
    if op == '<-':
        cht = E.types[d['xt']].u
        return E.chan_recv(x, d.get('commaok'), cht.elem)
    t = E.types[ins.t].u
    if op == '-':
        if type(x) is FloatV:
            return E.float_neg(x)
        if type(x) is int:
            return norm(-x, t.bits, t.signed)
        return -x
    if op == '^':
        if type(x) is int:
            return norm(~x, t.bits, t.signed)
        return ~x
    raise Unsupported('unop ' + op)


def h_fieldaddr(E, ins, x, y):
    if x is None:
        raise GoPanic('nil-deref', 'field address of nil pointer')
    return Ptr(x.obj, x.path + (ins.d['idx'],))


def h_field(E, ins, x, y):
    return x[ins.d['idx']]


def h_indexaddr(E, ins, x, y):
    t = type(x)
    if type(y) is not int:
        it = None
        y = E.conc_int(y, 64, True, 'index')
    if t is Slice:
        if y < 0 or y >= x.len:
            raise GoPanic('index-out-of-range', '%d / len %d' % (y, x.len))
        return Ptr(x.obj, x.path + (x.off + y,))
    if x is None:
        raise GoPanic('nil-deref')
    # pointer to array
    n = E.types[E.types[ins.d['xt']].u.elem].u.len
    if y < 0 or y >= n:
        raise GoPanic('index-out-of-range', '%d / array %d' % (y, n))
    return Ptr(x.obj, x.path + (y,))


def h_index(E, ins, x, y):
    if type(y) is not int:
        y = E.conc_int(y, 64, True, 'index')
    if type(x) is tuple:
        if y < 0 or y >= len(x):
            raise GoPanic('index-out-of-range')
        return x[y]
    if type(x) is bytes:
        if y < 0 or y >= len(x):
            raise GoPanic('index-out-of-range')
        return x[y]
    if type(x) is SymStr:
        if y < 0 or y >= len(x.bs):
            raise GoPanic('index-out-of-range')
        return x.bs[y]
    raise Unsupported('index of %r' % (x,))


def h_convert(E, ins, x, y):
    d = ins.d
    st = E.types[d['xt']].u
    dt = E.types[ins.t].u
    sk, dk = st.k, dt.k
    if sk == 'basic' and dk == 'basic':
        sn, dn = st.name, dt.name
        sf = sn.startswith('float') or sn == 'untyped float'
        df = dn.startswith('float')
        if not sf and not df and st.bits and dt.bits:
            return E.convert_int(x, st.bits, st.signed, dt.bits, dt.signed)
        if sn in ('string', 'untyped string') and dn == 'string':
            return x
        if dn == 'string' and st.bits and not sf:
            if type(x) is int:
                try:
                    return chr(x).encode('utf-8')
                except (ValueError, OverflowError):
                    return b'\xef\xbf\xbd'
            raise Unsupported('string(symbolic rune)')
        if sf or df:
            return E.float_convert(x, st, dt)
        if dn == 'unsafe.Pointer' or sn == 'unsafe.Pointer':
            raise Unsupported('unsafe.Pointer conversion')
    if sk == 'basic' and dk == 'slice':
        # string -> []byte / []rune
        et = E.types[dt.elem].u
        if et.bits == 8 and type(x) is OpaqueStr:
            return Slice(E.new_obj([x], tag='opaquestr'), (), 0, 1, 1)
        if et.bits == 8:
            return E.make_slice_from(list(E.bytes_of(x)))
        if type(x) is bytes:
            return E.make_slice_from([ord(c) for c in x.decode('utf-8', errors='replace')])
        raise Unsupported('[]rune(symbolic)')
    if sk == 'slice' and dk == 'basic':
        et = E.types[st.elem].u
        if x.obj is not None and x.obj.tag == 'opaquestr':
            return x.obj.v[0]
        el = E.slice_list(x)
        if et.bits == 8:
            return E.mkstr(el)
        if all(type(e) is int for e in el):
            return ''.join(chr(e) for e in el).encode('utf-8')
        raise Unsupported('string([]rune symbolic)')
    if sk == dk:
        return x
    raise Unsupported('convert %s -> %s' % (st.id, dt.id))


def h_changetype(E, ins, x, y):
    return x


def h_changeinterface(E, ins, x, y):
    return x


def h_makeinterface(E, ins, x, y):
    return Iface(ins.d['xt'], x)


def h_extract(E, ins, x, y):
    return x[ins.d['idx']]


def h_typeassert(E, ins, x, y):
    d = ins.d
    at = d['at']
    atu = E.types[at].u
    commaok = d.get('commaok')
    if x is None:
        ok = False
    elif atu.k == 'iface':
        ok = E.implements(x.t, atu)
    else:
        ok = (x.t == at)
    if commaok:
        if ok:
            return ((x if atu.k == 'iface' else x.v), True)
        return (E.zero(at), False)
    if not ok:
        raise GoPanic('type-assert', 'interface holds %s, not %s' % (x.t if x is not None else 'nil', at))
    return x if atu.k == 'iface' else x.v


def h_makeslice(E, ins, x, y):
    n = E.conc_int(x, 64, True, 'make len')
    c = E.conc_int(y, 64, True, 'make cap')
    if n < 0 or c < n:
        raise GoPanic('makeslice-len-out-of-range')
    if c > 1 << 20:
        raise Unsupported('huge make')
    et = E.types[ins.t].u.elem
    z = E.zero(et)
    if type(z) is tuple:
        lst = [thaw(z) for _ in range(c)]
    else:
        lst = [z] * c
    return Slice(E.new_obj(lst), (), 0, n, c)


def h_makemap(E, ins, x, y):
    mt = E.types[ins.t].u
    return MapObj(E.epoch, mt.key, mt.elem)


def h_makechan(E, ins, x, y):
    n = E.conc_int(x, 64, True, 'chan cap')
    return ChanObj(n, E.epoch)


def h_lookup(E, ins, x, y):
    d = ins.d
    xt = E.types[d['xt']].u
    if xt.k == 'map':
        v, ok = E.map_lookup(x, y)
        if not ok:
            v = E.zero(xt.elem)
        if d.get('commaok'):
            return (v, ok)
        return v
    # string index
    return h_index(E, ins, x, y)


def h_range(E, ins, x, y):
    xt = E.types[ins.d['xt']].u
    if xt.k == 'map':
        if x is None:
            return RangeIter('map', [])
        if x.arbitrary:
            raise Unsupported('range over arbitrary map')
        items = [e for e in x.d.values()] + list(x.sym)
        if len(items) > 1 and E.opt.get('fork_map_order'):
            # fork over rotations of the iteration order (first element arbitrary)
            k = E.choose(len(items))
            items = items[k:] + items[:k]
        return RangeIter('map', items)
    if type(x) is bytes or type(x) is SymStr:
        return RangeIter('str', _range_string(E, list(x) if type(x) is bytes else list(x.bs)))
    raise Unsupported('range over %r' % (x,))


def _range_string(E, bs):
    """Go's range over a string: (byte offset, rune) pairs, an invalid byte giving (offset, U+FFFD) and advancing
    by one. Symbolic bytes: forked into ASCII / stray continuation byte (invalid, U+FFFD); a symbolic multi-byte lead
    is not supported."""
    items = []
    i, n = 0, len(bs)
    while i < n:
        b = bs[i]
        if type(b) is not int:
            if E.branch(z3.ULT(b, z3.BitVecVal(0x80, 8))):
                items.append((i, E.convert_int(b, 8, False, 32, True)))
                i += 1
                continue
            if E.branch(z3.ULE(b, z3.BitVecVal(0xBF, 8))):
                items.append((i, 0xFFFD))
                i += 1
                continue
            raise Unsupported('range over a string with a symbolic multi-byte UTF-8 lead byte')
        if b < 0x80:
            items.append((i, b))
            i += 1
            continue
        need = 2 if 0xC2 <= b <= 0xDF else 3 if 0xE0 <= b <= 0xEF else 4 if 0xF0 <= b <= 0xF4 else 0
        tail = bs[i + 1:i + need] if need else []
        if need and len(tail) == need - 1 and all(type(t) is int for t in tail):
            try:
                r = bytes([b] + tail).decode('utf-8')
                items.append((i, ord(r)))
                i += need
                continue
            except UnicodeDecodeError:
                pass
        elif need and any(type(t) is not int for t in tail):
            raise Unsupported('range over a string: multi-byte sequence with symbolic continuation bytes')
        items.append((i, 0xFFFD))
        i += 1
    return items


def h_next(E, ins, x, y):
    if x.pos >= len(x.items):
        tt = E.types[ins.t].u.tuple
        return (False, E.zero(tt[1]) if tt[1] in E.types else None, E.zero(tt[2]) if tt[2] in E.types else None)
    k, v = x.items[x.pos]
    x.pos += 1
    return (True, k, v)


def h_slicetoarrayptr(E, ins, x, y):
    n = E.types[E.types[ins.t].u.elem].u.len
    if x.len < n:
        raise GoPanic('slice-to-array-len')
    if x.obj is None:
        return None
    if x.off == 0 and x.len == n:
        # exact view of an array object or of a whole list
        v = x.obj.v
        for k in x.path:
            v = v[k]
        if len(v) == n:
            return Ptr(x.obj, x.path)
    raise Unsupported('slice to array pointer with offset')


HANDLERS = {
    'Alloc': h_alloc,
    'BinOp': h_binop,
    'UnOp': h_unop,
    'FieldAddr': h_fieldaddr,
    'Field': h_field,
    'IndexAddr': h_indexaddr,
    'Index': h_index,
    'Convert': h_convert,
    'ChangeType': h_changetype,
    'ChangeInterface': h_changeinterface,
    'MakeInterface': h_makeinterface,
    'Extract': h_extract,
    'TypeAssert': h_typeassert,
    'MakeSlice': h_makeslice,
    'MakeMap': h_makemap,
    'MakeChan': h_makechan,
    'Lookup': h_lookup,
    'Range': h_range,
    'Next': h_next,
    'SliceToArrayPointer': h_slicetoarrayptr,
}


def _slice_instr(E, ins, regs):
    d = ins.d
    x = E.ev(ins.x, regs)
    lo = E.ev(d['lo'], regs)
    hi = E.ev(d['hi'], regs)
    mx = E.ev(d['max'], regs)
    if lo is not None and type(lo) is not int:
        lo = E.conc_int(lo, 64, True, 'slice lo')
    if hi is not None and type(hi) is not int:
        hi = E.conc_int(hi, 64, True, 'slice hi')
    if mx is not None and type(mx) is not int:
        mx = E.conc_int(mx, 64, True, 'slice max')
    t = type(x)
    if t is bytes or t is SymStr:
        n = len(x)
        lo = 0 if lo is None else lo
        hi = n if hi is None else hi
        if not (0 <= lo <= hi <= n):
            raise GoPanic('slice-bounds', '[%d:%d] of string len %d' % (lo, hi, n))
        if t is bytes:
            return x[lo:hi]
        return E.mkstr(x.bs[lo:hi])
    if t is Slice:
        lo = 0 if lo is None else lo
        hi = x.len if hi is None else hi
        cap = x.cap if mx is None else mx
        if not (0 <= lo <= hi <= cap <= x.cap):
            raise GoPanic('slice-bounds', '[%d:%d:%d] of slice len %d cap %d' % (lo, hi, cap, x.len, x.cap))
        if x.obj is None:
            return NILSLICE
        return Slice(x.obj, x.path, x.off + lo, hi - lo, cap - lo)
    if t is Ptr:
        n = E.types[E.types[d['xt']].u.elem].u.len
        lo = 0 if lo is None else lo
        hi = n if hi is None else hi
        cap = n if mx is None else mx
        if not (0 <= lo <= hi <= cap <= n):
            raise GoPanic('slice-bounds', '[%d:%d:%d] of array %d' % (lo, hi, cap, n))
        return Slice(x.obj, x.path, lo, hi - lo, cap - lo)
    if x is None:
        raise GoPanic('nil-deref', 'slice of nil array pointer')
    raise Unsupported('slice of %r' % (x,))


def _install():
    Engine.handlers = dict(HANDLERS)


_install()


def implements(self, dyn_tid, iface_u):
    if not iface_u.imeths:
        return True
    sp = self.special_invoke.get(dyn_tid)
    if sp is not None:
        ms = self.special_methods.get(dyn_tid, ())
        return all(m in ms for m in iface_u.imeths)
    t = self.types.get(dyn_tid)
    if t is None:
        return False
    ms = t.methods or {}
    return all(m in ms for m in iface_u.imeths)


Engine.implements = implements
Engine.special_methods = {}


def float_binop(self, op, x, y, bits):
    import struct
    if type(x.v) is int and type(y.v) is int:
        fmt_i, fmt_f = ('<I', '<f') if bits == 32 else ('<Q', '<d')
        fx = struct.unpack(fmt_f, struct.pack(fmt_i, x.v))[0]
        fy = struct.unpack(fmt_f, struct.pack(fmt_i, y.v))[0]
        if op in ('==', '!=', '<', '<=', '>', '>='):
            return {'==': fx == fy, '!=': fx != fy, '<': fx < fy, '<=': fx <= fy, '>': fx > fy, '>=': fx >= fy}[op]
        if op == '+':
            r = fx + fy
        elif op == '-':
            r = fx - fy
        elif op == '*':
            r = fx * fy
        elif op == '/':
            r = fx / fy if fy != 0 else (float('inf') if fx > 0 else float('-inf') if fx < 0 else float('nan'))
        else:
            raise Unsupported('float op ' + op)
        if bits == 32:
            r = struct.unpack('<f', struct.pack('<f', r))[0]
        return FloatV(bits, struct.unpack(fmt_i, struct.pack(fmt_f, r))[0])
    raise Unsupported('symbolic float arithmetic')


def float_neg(self, x):
    if type(x.v) is int:
        return FloatV(x.bits, x.v ^ (1 << (x.bits - 1)))
    return FloatV(x.bits, x.v ^ BV(1 << (x.bits - 1), x.bits))


def float_convert(self, x, st, dt):
    import struct
    sf = st.name.startswith('float') or st.name == 'untyped float'
    df = dt.name.startswith('float')
    if sf and df:
        if st.bits == dt.bits:
            return x
        if type(x.v) is int:
            if st.bits == 32:
                f = struct.unpack('<f', struct.pack('<I', x.v))[0]
                return FloatV(64, struct.unpack('<Q', struct.pack('<d', f))[0])
            f = struct.unpack('<d', struct.pack('<Q', x.v))[0]
            try:
                return FloatV(32, struct.unpack('<I', struct.pack('<f', f))[0])
            except OverflowError:
                return FloatV(32, 0x7f800000 if f > 0 else 0xff800000)
        # symbolic bit pattern: exact IEEE conversion through the FP theory for numbers; NaNs keep sign and payload
        # (shifted) and get the quiet bit set, which is what amd64/arm64 conversions do
        v = x.v
        if st.bits == 32:
            f = z3.fpBVToFP(v, z3.Float32())
            conv = z3.fpToIEEEBV(z3.fpToFP(z3.RNE(), f, z3.Float64()))
            isnan = z3.And(z3.Extract(30, 23, v) == BV(0xFF, 8), z3.Extract(22, 0, v) != BV(0, 23))
            nan = z3.Concat(z3.Extract(31, 31, v), BV(0x7FF, 11), BV(1, 1), z3.Extract(21, 0, v), BV(0, 29))
            return FloatV(64, z3.If(isnan, nan, conv), src=v)
        if x.src is not None:
            # narrowing a value that was widened from float32: exact for numbers, NaNs come back quieted
            s = x.src
            isnan = z3.And(z3.Extract(30, 23, s) == BV(0xFF, 8), z3.Extract(22, 0, s) != BV(0, 23))
            return FloatV(32, z3.If(isnan, s | BV(0x00400000, 32), s))
        f = z3.fpBVToFP(v, z3.Float64())
        conv = z3.fpToIEEEBV(z3.fpToFP(z3.RNE(), f, z3.Float32()))
        isnan = z3.And(z3.Extract(62, 52, v) == BV(0x7FF, 11), z3.Extract(51, 0, v) != BV(0, 52))
        nan = z3.Concat(z3.Extract(63, 63, v), BV(0xFF, 8), BV(1, 1), z3.Extract(50, 29, v))
        return FloatV(32, z3.If(isnan, nan, conv))
    if df:
        if type(x) is int:
            if dt.bits == 32:
                return FloatV(32, struct.unpack('<I', struct.pack('<f', float(x)))[0])
            return FloatV(64, struct.unpack('<Q', struct.pack('<d', float(x)))[0])
        raise Unsupported('symbolic int to float')
    if type(x.v) is int:
        fmt_i, fmt_f = ('<I', '<f') if x.bits == 32 else ('<Q', '<d')
        f = struct.unpack(fmt_f, struct.pack(fmt_i, x.v))[0]
        return norm(int(f), dt.bits, dt.signed)
    raise Unsupported('symbolic float to int')


Engine.float_binop = float_binop
Engine.float_neg = float_neg
Engine.float_convert = float_convert


class Poison:
    def __repr__(self):
        return 'Poison'


POISON = Poison()


def run_inits(self, pkgs=None):
    """Execute package initialisers concretely (tolerant: an unsupported call yields Poison)."""
    self.init_mode = True
    strict = self.handlers

    def tolerant(h):
        def w(E, ins, x, y):
            try:
                return h(E, ins, x, y)
            except (GoPanic, PathAbort):
                raise
            except Exception as e:
                E.init_notes.append('%s: %s' % (ins.op, e))
                return POISON
        return w
    self.handlers = {k: tolerant(h) for k, h in strict.items()}
    self.solver = z3.Solver()
    self.prefix = []
    self.pos = 0
    self.trail = []
    order = [p for p in self.prog.pkgorder if p in self.prog.inits]
    for p in order:
        if pkgs is not None and p not in pkgs:
            continue
        fn = self.prog.funcs[self.prog.inits[p]]
        try:
            self.call(fn, [])
        except (Unsupported, GoPanic, PathAbort) as e:
            self.init_notes.append('init %s: %s' % (p, e))
    self.init_mode = False
    self.handlers = strict
    self.undo = []
    self.syncmaps_base = {k: dict(v) for k, v in self.syncmaps.items()}
    self.stats.instrs += self.path_instrs
    self.path_instrs = 0


def run_setup(self, fname):
    """run a harness set-up function concretely, once; what it builds persists across paths (like package init)"""
    self.solver = z3.Solver()
    self.prefix = []
    self.pos = 0
    self.trail = []
    self.choice_trail = []
    self.nondets = []
    self.callstack = []
    self.path_instrs = 0
    self.call(self.prog.funcs[fname], [])
    self.undo = []
    self.syncmaps_base = {k: dict(v) for k, v in self.syncmaps.items()}
    self.stats.instrs += self.path_instrs
    self.path_instrs = 0


Engine.run_setup = run_setup
Engine.run_inits = run_inits
Engine.init_mode = False
Engine.init_notes = []
