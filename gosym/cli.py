import argparse, importlib, os, sys


def main():
    ap = argparse.ArgumentParser()
    ap.add_argument('id')
    ap.add_argument('--tier', default=os.environ.get('VERIF_TIER', 'quick'))
    ap.add_argument('--replay')
    ap.add_argument('--keep', action='store_true')
    ap.add_argument('--jobs', type=int)
    a = ap.parse_args()
    from . import check
    if not os.path.exists(os.path.join(check.VERIF, 'bin', 'gossa')):
        import subprocess
        subprocess.check_call(['bash', os.path.join(check.VERIF, 'setup.sh')])
    if a.replay:
        sys.exit(check.replay_file(a.replay))
    spec = importlib.import_module('checks.' + a.id.lower())
    seed = int(os.environ.get('VERIF_SEED', '0') or 0)
    sys.exit(check.run_check(spec, a.tier, seed, jobs=a.jobs, keep=a.keep))


if __name__ == '__main__':
    main()
