"""driver helpers: build overlay, run gossa, explore harnesses"""
import json, os, shutil, subprocess, sys, tempfile, time, hashlib

VERIF = os.path.dirname(os.path.dirname(os.path.abspath(__file__)))
REPO = os.environ.get('VERIF_REPO', '/repo')
GOENV = dict(os.environ, GOFLAGS='-mod=mod', GOPROXY='off', GOSUMDB='off', GOTOOLCHAIN='local')

PKGNAMES = {'.': 'gomavlib'}


def pkg_name(rel):
    if rel in PKGNAMES:
        return PKGNAMES[rel]
    return os.path.basename(rel)


def build_overlay(dst, harness_files, extra=None, clock_pkgs=(), kernel_pkgs=()):
    """harness_files: list of paths relative to VERIF/harness (e.g. pkg/x25/zz_verif_c02.go).
    extra: dict relpath -> content (generated harnesses). Writes rt file per package."""
    if os.path.exists(dst):
        shutil.rmtree(dst)
    os.makedirs(dst)
    tmpl = open(os.path.join(VERIF, 'harness', 'rt.go.tmpl')).read()
    pkgs = set()
    for rel in harness_files:
        src = os.path.join(VERIF, 'harness', rel)
        d = os.path.join(dst, os.path.dirname(rel))
        os.makedirs(d, exist_ok=True)
        shutil.copy(src, os.path.join(d, os.path.basename(rel)))
        pkgs.add(os.path.dirname(rel) or '.')
    for rel, content in (extra or {}).items():
        d = os.path.join(dst, os.path.dirname(rel))
        os.makedirs(d, exist_ok=True)
        with open(os.path.join(dst, rel), 'w') as f:
            f.write(content)
        pkgs.add(os.path.dirname(rel) or '.')
    for p in pkgs:
        with open(os.path.join(dst, p, 'zz_verif_rt.go'), 'w') as f:
            f.write(tmpl.replace('PKGNAME', pkg_name(p)))
    ctmpl = open(os.path.join(VERIF, 'harness', 'rt_clock.go.tmpl')).read()
    for p in clock_pkgs:
        with open(os.path.join(dst, p, 'zz_verif_rt_clock.go'), 'w') as f:
            f.write(ctmpl.replace('PKGNAME', pkg_name(p)))
    ktmpl = open(os.path.join(VERIF, 'harness', 'rt_kernel.go.tmpl')).read()
    for p in kernel_pkgs:
        with open(os.path.join(dst, p, 'zz_verif_rt_kernel.go'), 'w') as f:
            f.write(ktmpl.replace('PKGNAME', pkg_name(p)))
    return sorted(pkgs)


def run_gossa(overlay, pkgs, roots, out, allow='', inits='', mtypes=''):
    cmd = [os.path.join(VERIF, 'bin', 'gossa'), '-dir', REPO, '-overlay', overlay,
           '-pkgs', ','.join('./' + p if p != '.' else '.' for p in pkgs),
           '-roots', ','.join(roots), '-out', out]
    if allow:
        cmd += ['-allow', allow]
    if inits:
        cmd += ['-inits', inits]
    if mtypes:
        cmd += ['-mtypes', mtypes]
    t0 = time.time()
    r = subprocess.run(cmd, env=GOENV, capture_output=True, text=True)
    if r.returncode != 0:
        raise RuntimeError('gossa failed: ' + r.stderr[-3000:])
    return time.time() - t0, r.stderr.strip()


def overlay_json(overlay, path):
    """go build -overlay file mapping /repo/... -> overlay files"""
    rep = {}
    for root, _, files in os.walk(overlay):
        for fn in files:
            if fn.endswith('.go'):
                full = os.path.join(root, fn)
                rel = os.path.relpath(full, overlay)
                rep[os.path.join(REPO, rel)] = full
    with open(path, 'w') as f:
        json.dump({'Replace': rep}, f)
    return path
