"""check driver: overlay -> gossa -> parallel symbolic exploration -> native replay -> evidence."""
import hashlib
import json
import multiprocessing as mp
import os
import re
import shutil
import subprocess
import sys
import tempfile
import time
import traceback

from . import run as R

VERIF = R.VERIF
REPO = R.REPO
MODPATH = 'github.com/bluenviron/gomavlib/v3'


class Task:
    def __init__(self, root, args=(), opts=None, pkg=None, prefixes=None, label=None, group=None):
        self.group = group        # program group (one gossa run); None = the default group
        self.root = root          # short harness name
        self.args = list(args)
        self.opts = dict(opts or {})
        self.pkg = pkg            # package dir relative to repo ('pkg/frame', '.')
        self.prefixes = prefixes
        self.label = label or '%s(%s)' % (root, ','.join(map(str, args)))

    def full_root(self):
        p = MODPATH if self.pkg in ('.', '', None) else MODPATH + '/' + self.pkg
        return p + '.' + self.root


# ----------------------------------------------------------------------------- worker side
_W = {}


def _worker_init(json_path, base_opts):
    _W['json'] = json_path
    _W['base'] = base_opts
    _W['engines'] = {}
    _W['order'] = []


def _get_engine(opts, jpath=None):
    from .ir import Program
    from .engine import Engine
    jpath = jpath or _W['json']
    key = jpath + '|' + json.dumps(opts, sort_keys=True)
    e = _W['engines'].get(key)
    if e is not None:
        _W['order'].remove(key)
        _W['order'].append(key)
    if e is None:
        while len(_W['order']) >= 3:
            old = _W['order'].pop(0)
            del _W['engines'][old]
        _W['order'].append(key)
        # a Program is decoded in place with engine-specific constants: one Program per engine
        prog = Program(jpath)
        o = dict(_W['base'])
        o.update(opts)
        e = Engine(prog, o)
        setup = o.get('setup')
        e.run_inits()
        if o.get('setup_fn'):
            e.run_setup(o['setup_fn'])
        if setup:
            import importlib
            mod, fn = setup.rsplit(':', 1)
            getattr(importlib.import_module(mod), fn)(e)
        _W['engines'][key] = e
    return e


def _run_task(t):
    from .engine import Stats
    (root, args, opts, prefixes, slice_s, label, max_samples, jpath) = t
    t0 = time.time()
    try:
        E = _get_engine(opts, jpath)
        E.stats = Stats()
        E.violations = []
        E.inconclusive = []
        E.obs_samples = []
        E.obs_budget = max_samples
        E.xcheck_budget = int(opts.get('xcheck', _W['base'].get('xcheck', 0))) if prefixes is None else 0
        left = E.explore(root, args, deadline=time.time() + slice_s, prefixes=prefixes)
        st = E.stats
        return {
            'label': label, 'root': root, 'args': args, 'opts': opts,
            'paths': st.paths, 'aborted': st.paths_aborted, 'instrs': st.instrs, 'queries': st.queries,
            'solver_s': st.solver_s, 'obligations': st.obligations, 'discharged': st.discharged,
            'trivial': st.trivial, 'unknown': st.unknown, 'reach': st.reach, 'sched_switches': getattr(st, 'sched_switches', 0),
            'goroutines': getattr(st, 'goroutines', 0), 'foreign': getattr(st, 'foreign', 0), 'uf_refined': getattr(st, 'uf_refined', 0),
            'cvc5_queries': getattr(st, 'cvc5_queries', 0), 'unknown_branches': getattr(st, 'unknown_branches', 0),
            'xchecked': getattr(st, 'xchecked', 0), 'xcheck_cvc5_unsat': getattr(st, 'xcheck_cvc5_unsat', 0), 'xcheck_cvc5_no_answer': getattr(st, 'xcheck_cvc5_no_answer', 0),
            'xcheck_z3_4_8_12_unsat': getattr(st, 'xcheck_z3_4_8_12_unsat', 0), 'xcheck_z3_4_8_12_no_answer': getattr(st, 'xcheck_z3_4_8_12_no_answer', 0), 'funcs': sorted(st.funcs),
            'samples': st.samples, 'forks': st.forks, 'oblig_tags': st.oblig_tags,
            'violations': [v.to_json() for v in E.violations],
            'inconclusive': E.inconclusive[:10], 'left': left, 'wall': time.time() - t0,
            'obs': E.obs_samples, 'init_notes': E.init_notes[:5],
        }
    except Exception as e:  # machinery error
        return {'label': label, 'root': root, 'args': args, 'opts': opts, 'error': '%s\n%s' % (e, traceback.format_exc()),
                'left': [], 'wall': time.time() - t0}


def _confirm_task(t):
    """concrete re-execution of a counterexample in the interpreter (kernel harnesses)"""
    (root, args, opts, vector, decisions, jpath) = t
    try:
        from .engine import Stats
        E = _get_engine(opts, jpath)
        E.stats = Stats()
        E.inconclusive = []
        E.obs_budget = 0
        tags, out = E.run_concrete(root, args, vector, decisions)
        return {'failures': tags, 'outcome': out, 'note': 'not replayed natively (kernel-mode harness): confirmed by concrete re-execution in the interpreter'}
    except Exception as e:
        return {'failures': [], 'outcome': 'error', 'error': str(e)}


# ----------------------------------------------------------------------------- native replay
REPLAY_TEST = '''package PKGNAME

import (
	"encoding/json"
	"fmt"
	"os"
	"testing"
)

type verifReplayCase struct {
	Harness string   `json:"harness"`
	Args    []int    `json:"args"`
	Vector  []uint64 `json:"vector"`
}

func TestVerifReplay(t *testing.T) {
	data, err := os.ReadFile(os.Getenv("VERIF_REPLAY"))
	if err != nil {
		t.Fatal(err)
	}
	var cases []verifReplayCase
	if err := json.Unmarshal(data, &cases); err != nil {
		t.Fatal(err)
	}
	for i, c := range cases {
		c := c
		fails, pan, av := verifRunHarness(func() { verifCallHarness(c.Harness, c.Args) }, c.Vector)
		out, _ := json.Marshal(map[string]interface{}{"i": i, "failures": fails, "panic": pan, "assume_violated": av, "obs": verifObsLog})
		fmt.Printf("VERIF-REPLAY %s\\n", out)
	}
}

func verifCallHarness(name string, a []int) {
	switch name {
CASES
	default:
		panic("unknown harness " + name)
	}
}
'''


def harness_signatures(overlay, pkg):
    """scan overlay files of a package for verifHarness_* functions with int parameters"""
    sigs = {}
    d = os.path.join(overlay, pkg)
    for fn in sorted(os.listdir(d)):
        if not fn.endswith('.go') or fn.endswith('_test.go'):
            continue
        src = open(os.path.join(d, fn)).read()
        for m in re.finditer(r'^func (verifHarness_\w+)\(([^)]*)\)\s*{', src, re.M):
            params = [p.strip() for p in m.group(2).split(',') if p.strip()]
            n = 0
            for p in params:
                n += 1
            sigs[m.group(1)] = n
    return sigs


def write_replay_test(overlay, pkg):
    sigs = harness_signatures(overlay, pkg)
    cases = []
    for name, n in sorted(sigs.items()):
        cases.append('\tcase "%s":\n\t\t%s(%s)' % (name, name, ', '.join('a[%d]' % i for i in range(n))))
    src = REPLAY_TEST.replace('PKGNAME', R.pkg_name(pkg)).replace('CASES', '\n'.join(cases))
    with open(os.path.join(overlay, pkg, 'zz_verif_replay_test.go'), 'w') as f:
        f.write(src)


def native_replay(overlay, workdir, pkg, cases, timeout=600):
    """cases: list of {harness,args,vector}. Returns list of result dicts (same order) or raises."""
    write_replay_test(overlay, pkg)
    ovj = R.overlay_json(overlay, os.path.join(workdir, 'overlay.json'))
    cf = os.path.join(workdir, 'replay_cases_%s.json' % pkg.replace('/', '_').replace('.', 'root'))
    with open(cf, 'w') as f:
        json.dump(cases, f)
    env = dict(R.GOENV, VERIF_REPLAY=cf)
    cmd = ['go', 'test', '-vet=off', '-count=1', '-overlay', ovj, '-run', '^TestVerifReplay$', '-v',
           './' + pkg if pkg != '.' else '.']
    r = subprocess.run(cmd, cwd=REPO, env=env, capture_output=True, text=True, timeout=timeout)
    res = {}
    for line in r.stdout.splitlines():
        if line.startswith('VERIF-REPLAY '):
            d = json.loads(line[len('VERIF-REPLAY '):])
            res[d['i']] = d
    if len(res) != len(cases):
        raise RuntimeError('native replay failed (%d/%d results): %s\n%s' % (len(res), len(cases), r.stdout[-2000:], r.stderr[-3000:]))
    return [res[i] for i in range(len(cases))]


# ----------------------------------------------------------------------------- known findings
def load_known():
    p = os.path.join(VERIF, 'known_findings.json')
    if not os.path.exists(p):
        return {'findings': [], 'fixed': []}
    return json.load(open(p))


def match_known(known, prop, root, tag, args, vector):
    for k in known.get('findings', []):
        if k.get('property') != prop:
            continue
        if k.get('harness') and k['harness'] != root:
            continue
        if k.get('tag') and k['tag'] != tag:
            continue
        w = k.get('where')
        if w:
            try:
                if not eval(w, {'v': vector, 'a': args}):
                    continue
            except Exception:
                continue
        return k
    return None


# ----------------------------------------------------------------------------- main entry
def sha_file(p):
    try:
        return hashlib.sha256(open(p, 'rb').read()).hexdigest()[:16]
    except OSError:
        return None


def run_check(spec, tier='quick', seed=0, jobs=None, keep=False, verbose=True):
    t_start = time.time()
    pid = spec.ID
    jobs = jobs or int(os.environ.get('VERIF_JOBS', '16'))
    work = tempfile.mkdtemp(prefix='verif-%s-' % pid.lower(), dir=os.environ.get('VERIF_TMP', '/tmp'))
    log = (lambda *a: print(*a, file=sys.stderr, flush=True)) if verbose else (lambda *a: None)
    evidence_path = os.path.join(VERIF, 'evidence', pid + '.json')
    os.makedirs(os.path.dirname(evidence_path), exist_ok=True)
    exit_code = 2
    ev = {'property_id': pid, 'tier': tier, 'seed': seed, 'level': 'model_checking', 'coverage': {}, 'wall_s': 0.0,
          'violations': 0}
    try:
        overlay = os.path.join(work, 'overlay')
        prep = spec.prepare(tier, work) if hasattr(spec, 'prepare') else {}
        extra = prep.get('extra') if prep else None
        if extra is None:
            extra = spec.generate(tier) if hasattr(spec, 'generate') else {}
        pkgs = R.build_overlay(overlay, spec.HARNESS_FILES, extra, getattr(spec, 'CLOCK_PKGS', ()), getattr(spec, 'KERNEL_PKGS', ()))
        groups = prep.get('groups') if prep else None
        if not groups:
            groups = [{'name': None, 'pkgs': sorted(set(pkgs) | set(getattr(spec, 'EXTRA_PKGS', []))),
                       'roots': getattr(spec, 'ROOTS', ['verifHarness_'])}]
        jpaths = {}

        def gossa_group(g):
            gp = g['pkgs']
            inits = [x for x in g.get('inits', getattr(spec, 'INITS', '')).split(',') if x]
            for p in gp:
                if p in pkgs:
                    ip = MODPATH if p == '.' else MODPATH + '/' + p
                    if ip not in inits:
                        inits.append(ip)
            jp = os.path.join(work, 'ssa_%s.json' % (g['name'] or 'main').replace('/', '_'))
            gs, gmsg = R.run_gossa(overlay, gp, g['roots'], jp, allow=g.get('allow', getattr(spec, 'ALLOW', '')),
                                   inits=','.join(inits), mtypes=g.get('mtypes', getattr(spec, 'MTYPES', '')))
            return g['name'], jp, gs, gmsg
        from concurrent.futures import ThreadPoolExecutor
        with ThreadPoolExecutor(max_workers=8) as ex:
            for name, jp, gs, gmsg in ex.map(gossa_group, groups):
                jpaths[name] = jp
                if len(groups) <= 3:
                    log('[%s] %s (%.1fs)' % (pid, gmsg, gs))
        if len(groups) > 3:
            log('[%s] gossa: %d program groups built (%.1fs)' % (pid, len(groups), time.time() - t_start))
        jpath = jpaths.get(None) or list(jpaths.values())[0]
        base_opts = dict(getattr(spec, 'OPTIONS', {}))
        base_opts.setdefault('xcheck', 0)
        if getattr(spec, 'TAG_FILTER', None):
            base_opts['tag_filter'] = list(spec.TAG_FILTER)
        tasks = spec.tasks(tier)
        for t in tasks:
            if t.pkg is None:
                t.pkg = spec.PKG
        slice_s = getattr(spec, 'SLICE_S', 20)
        nsamp = getattr(spec, 'OBS_SAMPLES', 2)
        ctx = mp.get_context('fork')
        pool = ctx.Pool(min(jobs, max(1, len(tasks))) if len(tasks) < jobs else jobs, initializer=_worker_init,
                        initargs=(jpath, base_opts))
        agg = {'paths': 0, 'aborted': 0, 'instrs': 0, 'queries': 0, 'solver_s': 0.0, 'obligations': 0, 'discharged': 0,
               'trivial': 0, 'unknown': 0, 'forks': 0, 'sched_switches': 0, 'goroutines': 0, 'foreign': 0, 'uf_refined': 0,
               'cvc5_queries': 0, 'unknown_branches': 0, 'xchecked': 0, 'xcheck_cvc5_unsat': 0, 'xcheck_cvc5_no_answer': 0,
               'xcheck_z3_4_8_12_unsat': 0, 'xcheck_z3_4_8_12_no_answer': 0}
        reach = {}
        oblig_tags = {}
        other_tags = {}
        funcs = set()
        samples = []
        violations = []
        inconclusive = []
        errors = []
        obs = []
        per_task = {}
        pending = 0
        results = []

        def submit(t, prefixes=None):
            nonlocal pending
            pending += 1
            a = (t.full_root(), t.args, t.opts, prefixes, slice_s, t.label, nsamp, jpaths.get(t.group, jpath))
            pool.apply_async(_run_task, (a,), callback=lambda r, t=t: results.append((t, r)),
                             error_callback=lambda e, t=t: results.append((t, {'error': str(e), 'left': [], 'label': t.label})))
        # a sample of the discharged obligations is re-decided by cvc5 and z3 4.8.12 (about 40 / 200 per run)
        want_x = 40 if tier == 'quick' else 200
        every = max(1, len(tasks) // want_x)
        for ti, t in enumerate(tasks):
            if ti % every == 0 and 'xcheck' not in t.opts:
                t.opts = dict(t.opts, xcheck=1)
        for t in tasks:
            submit(t, t.prefixes)
        # wall-clock budget of the exploration (a mutated tree can make a harness explode): spec.budget_s, else 25 min
        # for the quick tier and 8 h for the thorough one; running out of it without a violation is INCONCLUSIVE. Once a
        # violation has been recorded the exploration goes on for at most 90 s (quick) / 10 min (thorough) more.
        budget = spec.budget_s(tier) if hasattr(spec, 'budget_s') else int(os.environ.get('VERIF_BUDGET_S', 1500 if tier == 'quick' else 8 * 3600))
        deadline = time.time() + budget
        grace = 90 if tier == 'quick' else 600
        first_violation_at = None
        timed_out = False
        stopped_early = False
        last_log = time.time()
        ndone = 0
        while pending:
            if violations and first_violation_at is None:
                first_violation_at = time.time()
            if first_violation_at is not None and time.time() - first_violation_at > grace:
                stopped_early = True
                break
            if time.time() > deadline:
                timed_out = True
                break
            if time.time() - last_log > 30:
                last_log = time.time()
                log('[%s] ... %d task runs done, %d pending, paths=%d, %.0fs' % (pid, ndone, pending, agg['paths'], time.time() - t_start))
                if os.environ.get('VERIF_PROGRESS_TOP'):
                    top = sorted(per_task.items(), key=lambda kv: -kv[1]['wall'])[:6]
                    log('[%s]     top: %s' % (pid, ', '.join('%s %.0fs/%dp' % (k, v['wall'], v['paths']) for k, v in top)))
            if not results:
                time.sleep(0.02)
                if deadline and time.time() > deadline:
                    timed_out = True
                    break
                continue
            t, r = results.pop()
            pending -= 1
            ndone += 1
            if 'error' in r:
                errors.append('%s: %s' % (r.get('label'), r['error']))
                continue
            for k in agg:
                agg[k] += r.get(k, 0)
            for k, v in r['reach'].items():
                reach[k] = reach.get(k, 0) + v
            for k, v in r['oblig_tags'].items():
                oblig_tags[k] = oblig_tags.get(k, 0) + v
            funcs |= set(r['funcs'])
            if len(samples) < 8:
                for s in r['samples']:
                    s = dict(s)
                    s['task'] = r['label']
                    samples.append(s)
            for v in r['violations']:
                v['task'] = t
                tf = getattr(spec, 'TAG_FILTER', None)
                if tf and v['kind'] == 'assert' and not v['tag'].startswith(tf):
                    other_tags[v['tag']] = other_tags.get(v['tag'], 0) + 1
                    continue
                violations.append(v)
            for m in r['inconclusive']:
                inconclusive.append('%s: %s' % (r['label'], m))
            for o in r['obs']:
                o['task'] = t
                obs.append(o)
            pt = per_task.setdefault(r['label'], {'paths': 0, 'wall': 0.0})
            pt['paths'] += r['paths']
            pt['wall'] += r['wall']
            left = r['left']
            cap = getattr(spec, 'MAX_PATHS_PER_TASK', 20000)
            if left and pt['paths'] > cap:
                if not pt.get('capped'):
                    pt['capped'] = True
                    inconclusive.append('%s: path budget (%d) exceeded, exploration of this instance abandoned' % (r['label'], cap))
                left = None
            if left:
                # split leftover prefixes over several new tasks
                k = max(1, min(len(left), jobs // 2))
                for i in range(k):
                    chunk = left[i::k]
                    if chunk:
                        submit(t, chunk)
        if timed_out:
            inconclusive.append('time budget (%d s) exceeded with %d tasks pending' % (budget, pending))
        if stopped_early:
            log('[%s] violation recorded %.0f s ago: remaining exploration (%d task runs pending) skipped' % (pid, time.time() - first_violation_at, pending))
        if timed_out or stopped_early:
            # workers are still busy with abandoned tasks: replace the pool (it is reused for confirmations below)
            pool.terminate()
            pool.join()
            pool = ctx.Pool(min(jobs, 4), initializer=_worker_init, initargs=(jpath, base_opts))
        log('[%s] explored: paths=%d instrs=%d obligations=%d discharged=%d queries=%d solver=%.1fs violations=%d inconclusive=%d errors=%d (%.1fs)' % (
            pid, agg['paths'], agg['instrs'], agg['obligations'], agg['discharged'], agg['queries'], agg['solver_s'],
            len(violations), len(inconclusive), len(errors), time.time() - t_start))

        slow = sorted(per_task.items(), key=lambda kv: -kv[1]['wall'])[:int(os.environ.get('VERIF_SLOWEST', '5'))]
        log('[%s] slowest tasks: %s' % (pid, ', '.join('%s %.1fs/%dp' % (k, v['wall'], v['paths']) for k, v in slow)))
        # vacuity: every required tag must be reached
        missing = [tg for tg in spec.required_reach(tier) if reach.get(tg, 0) == 0]
        if missing and not stopped_early:
            inconclusive.append('vacuity: tags never reached: %s' % missing)

        # ---- native side: validate encoding on sampled paths, replay violations
        known = load_known()
        confirmed = []
        known_hits = []
        spurious = []
        validated = 0
        mismatch = []
        by_pkg = {}
        for o in obs:
            by_pkg.setdefault(o['task'].pkg, []).append(('obs', o))
        # at most a few violations per (root, tag)
        seen_v = {}
        for v in violations:
            key = (v['task'].root, v['tag'])
            seen_v[key] = seen_v.get(key, 0) + 1
            if seen_v[key] <= getattr(spec, 'REPLAYS_PER_TAG', 3):
                by_pkg.setdefault(v['task'].pkg, []).append(('viol', v))
        skip_native = os.environ.get('VERIF_SKIP_NATIVE') == '1'
        kernel_pkgs = set(getattr(spec, 'KERNEL_PKGS', ()))
        native_prefixes = tuple(getattr(spec, 'NATIVE_ROOT_PREFIXES', ()))

        def is_kernel(t):
            if getattr(spec, 'NATIVE', True) is False:
                return True
            if t.opts.get('sort_lemma'):
                # an obligation stated by the executor on the real comparator closure: there is no native harness for
                # it; the counterexample (three field descriptors) is confirmed by concrete re-execution
                return True
            return t.pkg in kernel_pkgs and not t.root.startswith(native_prefixes or ('\0',))
        # kernel-mode harnesses (blocking code): confirm by concrete re-execution in the interpreter
        for pkg, items in list(by_pkg.items()):
            keep = []
            for kind, x in items:
                if kind != 'viol' or not is_kernel(x['task']):
                    if kind == 'obs' and is_kernel(x['task']):
                        continue
                    keep.append((kind, x))
                    continue
                t = x['task']
                r = pool.apply(_confirm_task, ((t.full_root(), t.args, t.opts, x['vector'], x.get('choices', []), jpaths.get(t.group, jpath)),))
                x['native'] = r
                rep = (x['tag'] in r.get('failures', [])) if x['kind'] == 'assert' else (
                    r.get('outcome') == 'panic' or any(f.startswith('panic:') for f in r.get('failures', [])))
                if rep:
                    k = match_known(known, pid, t.root, x['tag'], t.args, x['vector'])
                    if k is not None:
                        known_hits.append((k, x))
                    else:
                        confirmed.append(x)
                else:
                    spurious.append(x)
            if keep:
                by_pkg[pkg] = keep
            else:
                del by_pkg[pkg]
        pool.terminate()
        pool.join()
        obs_pkgs = sorted(p for p, it in by_pkg.items() if any(x[0] == 'obs' for x in it))
        maxp = getattr(spec, 'NATIVE_PKGS_MAX', None)
        if maxp and len(obs_pkgs) > maxp:
            # a seed-rotated window of packages, extended until enough sampled paths are covered
            start = seed % len(obs_pkgs)
            order = obs_pkgs[start:] + obs_pkgs[:start]
            keep_p = set()
            have = 0
            want = getattr(spec, 'MAX_VALIDATE', 40)
            for p in order:
                if len(keep_p) >= maxp and have >= want:
                    break
                if len(keep_p) >= maxp + 2:
                    break
                keep_p.add(p)
                have += len([1 for x in by_pkg[p] if x[0] == 'obs'])
        else:
            keep_p = set(obs_pkgs)
        for pkg, items in by_pkg.items():
            if skip_native:
                break
            obs_items = [x for x in items if x[0] == 'obs' and pkg in keep_p]
            if not obs_items and not any(x[0] == 'viol' for x in items):
                continue
            max_obs = getattr(spec, 'MAX_VALIDATE', 40)
            if len(obs_items) > max_obs:
                import random
                rnd = random.Random(seed)
                obs_items = rnd.sample(obs_items, max_obs)
            items = obs_items + [x for x in items if x[0] == 'viol']
            cases = [{'harness': x[1]['task'].root, 'args': x[1]['task'].args, 'vector': x[1]['vector']} for x in items]
            try:
                res = native_replay(overlay, work, pkg, cases)
            except Exception as e:
                errors.append('native replay: %s' % e)
                continue
            for (kind, x), r in zip(items, res):
                if kind == 'obs':
                    exp = x['obs']
                    got = r.get('obs') or []
                    # assertions outside this check's tag filter belong to another property's check: the engine skips
                    # them, so a native failure of one of them is not a disagreement between engine and real code
                    tf = getattr(spec, 'TAG_FILTER', None)
                    nfail = [f for f in (r.get('failures') or []) if not tf or any(f.startswith(p) for p in tf)]
                    if r.get('assume_violated') or r.get('panic') or nfail or got != exp:
                        mismatch.append({'task': x['task'].label, 'vector': x['vector'], 'expected': exp, 'native': r})
                    else:
                        validated += 1
                else:
                    rep = False
                    if x['kind'] == 'assert':
                        rep = x['tag'] in (r.get('failures') or [])
                    else:
                        rep = r.get('panic') is not None
                    # (an assumption violated natively ends the run, so a failure recorded before it stands)
                    if r.get('assume_violated') and x['kind'] != 'assert':
                        rep = False
                    x['native'] = r
                    if rep:
                        k = match_known(known, pid, x['task'].root, x['tag'], x['task'].args, x['vector'])
                        if k is not None:
                            known_hits.append((k, x))
                        else:
                            confirmed.append(x)
                    else:
                        spurious.append(x)
        if skip_native and violations:
            confirmed = [v for v in violations]
        if mismatch:
            errors.append('encoder validation mismatch: %s' % json.dumps(mismatch[:2], default=str)[:1500])
        # violations whose replay did not reproduce: the model or a stub is wrong -> inconclusive
        uf_ok = getattr(spec, 'SPURIOUS_OK_TAGS', ())
        for x in spurious:
            inconclusive.append('counterexample for %s did not reproduce natively (task %s)' % (x['tag'], x['task'].label))

        # ground obligations
        ground = None
        if hasattr(spec, 'ground'):
            ground = spec.ground(tier, work, overlay)
            for g in ground.get('failures', []):
                k = match_known(known, pid, g.get('harness', 'ground'), g['tag'], [], [])
                if k is not None:
                    known_hits.append((k, {'tag': g['tag'], 'task': Task('ground', pkg=''), 'vector': [], 'detail': g.get('detail', '')}))
                else:
                    confirmed.append({'tag': g['tag'], 'kind': 'ground', 'vector': [], 'task': Task('ground', pkg=''),
                                      'detail': g.get('detail', ''), 'decisions': []})
            for m in ground.get('errors', []):
                errors.append('ground: ' + m)

        # ---- verdict
        replay_dir = os.path.join(VERIF, 'replays', pid)
        printed = set()
        for k, x in known_hits:
            key = k.get('id') or (k.get('harness'), k.get('tag'))
            if key in printed:
                continue
            printed.add(key)
            print('KNOWN-FINDING: property=%s %s' % (pid, k.get('what', k.get('tag'))))
        nviol = 0
        if confirmed:
            if os.path.exists(replay_dir):
                shutil.rmtree(replay_dir)
            os.makedirs(replay_dir, exist_ok=True)
            done = set()
            for i, x in enumerate(confirmed):
                key = (x['task'].root, x['tag'])
                if key in done:
                    continue
                done.add(key)
                nviol += 1
                rp = os.path.join(replay_dir, '%d.json' % nviol)
                with open(rp, 'w') as f:
                    json.dump({'property': pid, 'harness': x['task'].root, 'pkg': x['task'].pkg, 'args': x['task'].args,
                               'tag': x['tag'], 'kind': x['kind'], 'vector': x['vector'], 'detail': x.get('detail', ''),
                               'native': x.get('native'),
                               'replay_cmd': './check %s --replay %s' % (pid, rp)}, f, indent=1, default=str)
                print('VIOLATION property=%s replay=%s' % (pid, rp))
                log('[%s]   %s %s args=%s vector=%s %s' % (pid, x['task'].root, x['tag'], x['task'].args,
                                                          str(x['vector'])[:200], str(x.get('detail', ''))[:200]))
        if nviol:
            exit_code = 1
        elif errors or inconclusive:
            exit_code = 2
        else:
            exit_code = 0
        for m in errors[:10]:
            log('[%s] ERROR %s' % (pid, m[:3000]))
        for m in inconclusive[:10]:
            log('[%s] INCONCLUSIVE %s' % (pid, m[:600]))

        files = {}
        for fn in sorted(funcs):
            f = None
        cov = {
            'states': max(agg['paths'], 0),
            'transitions': agg['instrs'],
            'traces_validated_against_impl': validated,
            'samples': samples or [{'note': 'no solver-decided obligation on this run'}],
            'obligations': agg['obligations'],
            'discharged': agg['discharged'],
            'decided_by_simplifier': agg['trivial'],
            'decided_by_solver': agg['obligations'] - agg['trivial'],
            'distinct_nontrivial': len([k for k in oblig_tags]),
            'evaluations': agg['obligations'],
            'rule': 'one evaluation = one assertion instance on one feasible symbolic path; distinct_nontrivial counts distinct assertion tags reached',
            'solver_queries': agg['queries'],
            'solver_s': round(agg['solver_s'], 2),
            'solver': 'z3 %s (in-process, incremental per path)' % _z3_version(),
            'paths_aborted_infeasible_or_assumption': agg['aborted'],
            'forks': agg['forks'],
            'unknown_answers': agg['unknown'],
            'branch_feasibility_unknown_kept': agg['unknown_branches'],
            'cvc5_int_encoding_queries': agg['cvc5_queries'],
            'sat_under_uninterpreted_function_refuted_with_definition': agg['uf_refined'],
            'assertions_owned_by_other_checks_skipped': agg['foreign'],
            'cross_checked_obligations': {'dumped_as_smtlib2': agg['xchecked'], 'cvc5_unsat': agg['xcheck_cvc5_unsat'], 'cvc5_no_answer_in_5s': agg['xcheck_cvc5_no_answer'],
                                          'z3_4_8_12_unsat': agg['xcheck_z3_4_8_12_unsat'], 'z3_4_8_12_no_answer_in_5s': agg['xcheck_z3_4_8_12_no_answer']},
            'goroutines_run': agg['goroutines'],
            'goroutine_switches': agg['sched_switches'],
            'loops_cut': 0,
            'reach_tags': reach,
            'obligation_tags': oblig_tags,
            'functions_encoded': sorted(f for f in funcs if 'verif' not in f.rsplit('.', 1)[-1])[:400],
            'harness_functions': sorted(f for f in funcs if 'verifHarness' in f),
            'bounds': spec.bounds(tier),
            'outside_claim': getattr(spec, 'OUTSIDE', []),
            'stubs': getattr(spec, 'STUBS', []),
            'tasks': len(per_task),
            'spurious_counterexamples': len(spurious),
            'violations_of_assertions_owned_by_other_checks': other_tags,
            'known_findings_hit': [k.get('what', '') for k, _ in known_hits][:10],
            'inconclusive': inconclusive[:10],
            'errors': [e[:500] for e in errors[:5]],
            'source_hashes': {os.path.relpath(p, REPO): sha_file(p) for p in getattr(spec, 'ANCHOR_FILES', [])},
        }
        if ground is not None:
            cov['ground_obligations'] = ground.get('count', 0)
            cov['ground_failures'] = len(ground.get('failures', []))
            cov['ground_note'] = ground.get('note', '')
        ev['coverage'] = cov
        ev['assumptions'] = getattr(spec, 'ASSUMPTIONS', [])
        ev['violations'] = nviol
    except Exception as e:
        log('[%s] MACHINERY ERROR %s\n%s' % (pid, e, traceback.format_exc()))
        ev['coverage'] = {'states': 1, 'transitions': 1, 'traces_validated_against_impl': 0,
                          'samples': [{'error': str(e)[:500]}], 'errors': [str(e)[:1000]]}
        exit_code = 2
    finally:
        ev['wall_s'] = round(time.time() - t_start, 2)
        ev['exit_code'] = exit_code
        with open(evidence_path, 'w') as f:
            json.dump(ev, f, indent=1, default=str)
        if not keep:
            shutil.rmtree(work, ignore_errors=True)
    log('[%s] tier=%s exit=%d wall=%.1fs' % (pid, tier, exit_code, time.time() - t_start))
    return exit_code


def _z3_version():
    import z3
    return z3.get_version_string()


def replay_file(path):
    """re-run a stored counterexample natively"""
    d = json.load(open(path))
    import importlib
    spec = importlib.import_module('checks.' + d['property'].lower())
    work = tempfile.mkdtemp(prefix='verif-replay-')
    try:
        overlay = os.path.join(work, 'overlay')
        prep = spec.prepare('quick', work) if hasattr(spec, 'prepare') else {}
        extra = prep.get('extra') if prep else None
        if extra is None:
            extra = spec.generate('quick') if hasattr(spec, 'generate') else {}
        R.build_overlay(overlay, spec.HARNESS_FILES, extra, getattr(spec, 'CLOCK_PKGS', ()), getattr(spec, 'KERNEL_PKGS', ()))
        res = native_replay(overlay, work, d['pkg'], [{'harness': d['harness'], 'args': d['args'], 'vector': d['vector']}])
        print(json.dumps(res[0], indent=1))
        r = res[0]
        rep = (d['tag'] in (r.get('failures') or [])) if d['kind'] == 'assert' else r.get('panic') is not None
        print('REPRODUCED' if rep else 'NOT REPRODUCED')
        return 1 if rep else 0
    finally:
        shutil.rmtree(work, ignore_errors=True)
