"""IR loader: turns the JSON produced by gossa into Python structures."""
import json


class Type:
    __slots__ = ('id', 'k', 'name', 'pkg', 'bits', 'signed', 'under', 'elem', 'key', 'len',
                 'fields', 'methods', 'imeths', 'tuple', 'u', 'zero_cache')

    def __init__(self, tid, d):
        self.id = tid
        self.k = d['k']
        self.name = d.get('name', '')
        self.pkg = d.get('pkg', '')
        self.bits = d.get('bits', 0)
        self.signed = d.get('signed', False)
        self.under = d.get('under')
        self.elem = d.get('elem')
        self.key = d.get('key')
        self.len = d.get('len', 0)
        self.fields = d.get('fields')
        self.methods = d.get('methods')
        self.imeths = d.get('imeths')
        self.tuple = d.get('tuple')
        self.u = None  # resolved underlying Type
        self.zero_cache = None

    def __repr__(self):
        return 'Type(%s)' % self.id


class Const:
    """Pre-evaluated operand."""
    __slots__ = ('v',)

    def __init__(self, v):
        self.v = v


class GlobalRef:
    __slots__ = ('name',)

    def __init__(self, name):
        self.name = name


class FuncRef:
    __slots__ = ('name',)

    def __init__(self, name):
        self.name = name

    def __repr__(self):
        return 'FuncRef(%s)' % self.name

    def __eq__(self, o):
        return isinstance(o, FuncRef) and o.name == self.name

    def __hash__(self):
        return hash(self.name)


class Builtin:
    __slots__ = ('name',)

    def __init__(self, name):
        self.name = name


class Instr:
    __slots__ = ('op', 'r', 't', 'x', 'y', 'd', 'ln', 'h')

    def __init__(self, d):
        self.op = d['op']
        self.r = d.get('r', -1)
        self.t = d.get('t')
        self.x = d.get('x')
        self.y = d.get('y')
        self.d = d
        self.ln = d.get('ln', 0)
        self.h = None


class Block:
    __slots__ = ('i', 'instrs', 'preds', 'succs')


class Func:
    __slots__ = ('name', 'pkg', 'short', 'params', 'pnames', 'freevars', 'results', 'nvalues', 'blocks',
                 'hasbody', 'file', 'line', 'synth', 'recv', 'sig', 'decoded')

    def __init__(self, d):
        self.name = d['name']
        self.pkg = d.get('pkg', '')
        self.short = d.get('short', '')
        self.params = d.get('params') or []
        self.pnames = d.get('pnames') or []
        self.freevars = d.get('freevars') or []
        self.results = d.get('results') or []
        self.nvalues = d.get('nvalues', 0)
        self.hasbody = d.get('hasbody', False)
        self.file = d.get('file', '')
        self.line = d.get('line', 0)
        self.synth = d.get('synth', '')
        self.recv = d.get('recv')
        self.sig = d.get('sig', '')
        self.blocks = d.get('blocks') or []
        self.decoded = False

    def __repr__(self):
        return 'Func(%s)' % self.name


class Program:
    def __init__(self, path):
        with open(path) as f:
            j = json.load(f)
        self.types = {}
        for tid, d in j['types'].items():
            self.types[tid] = Type(tid, d)
        for t in self.types.values():
            u = t
            while u.k == 'named':
                u = self.types[u.under]
            t.u = u
        self.funcs = {n: Func(d) for n, d in j['funcs'].items()}
        self.globals = j['globals']
        self.roots = j.get('roots') or []
        self.inits = j.get('inits') or {}
        self.files = j.get('files') or {}
        self.pkgorder = j.get('pkgorder') or []
        self.consts = j.get('consts') or {}

    def decode(self, fn, mkconst):
        """Lazily decode blocks of a function (operands -> runtime operands)."""
        if fn.decoded:
            return
        blocks = []
        for bd in fn.blocks:
            b = Block()
            b.i = bd['i']
            b.preds = bd.get('preds') or []
            b.succs = bd.get('succs') or []
            b.instrs = []
            for idd in bd['ins']:
                ins = Instr(idd)
                ins.x = self._operand(ins.x, mkconst)
                ins.y = self._operand(ins.y, mkconst)
                d = ins.d
                for k in ('args', 'edges'):
                    if k in d and d[k] is not None:
                        d[k] = [self._operand(a, mkconst) for a in d[k]]
                for k in ('fnv', 'recv', 'lo', 'hi', 'max', 'm'):
                    if k in d:
                        d[k] = self._operand(d[k], mkconst)
                if 'states' in d and d['states']:
                    for st in d['states']:
                        st['chan'] = self._operand(st['chan'], mkconst)
                        if 'send' in st:
                            st['send'] = self._operand(st['send'], mkconst)
                b.instrs.append(ins)
            blocks.append(b)
        fn.blocks = blocks
        fn.decoded = True

    def _operand(self, o, mkconst):
        if o is None or isinstance(o, int):
            return o
        if 'g' in o:
            return GlobalRef(o['g'])
        if 'fn' in o:
            return Const(FuncRef(o['fn']))
        if 'b' in o:
            return Const(Builtin(o['b']))
        return Const(mkconst(o))
