"""Intrinsics and environment stubs of the gosym executor (each is part of every claim that uses it)."""
import z3
from .values import *  # noqa
from .ir import FuncRef
from .engine import Engine, norm, BV, _abbrev

OPQ = '$opaqueerr'
RTYPE = '$rtype'

KIND = {'bool': 1, 'int': 2, 'int8': 3, 'int16': 4, 'int32': 5, 'int64': 6, 'uint': 7, 'uint8': 8, 'byte': 8,
        'uint16': 9, 'uint32': 10, 'rune': 5,
        'uint64': 11, 'uintptr': 12, 'float32': 13, 'float64': 14, 'complex64': 15, 'complex128': 16, 'string': 24, 'unsafe.Pointer': 26}
KKIND = {'array': 17, 'chan': 18, 'func': 19, 'iface': 20, 'map': 21, 'ptr': 22, 'slice': 23, 'struct': 25}


def register(E):
    I = E.intrinsics
    opt = E.opt

    # ---------------------------------------------------------------- harness vocabulary
    def nd(bits, signed=False):
        def f(E, args):
            v = E.add_nondet('bv', bits)
            return v
        return f
    I['@verifNondetU8'] = nd(8)
    I['@verifNondetU16'] = nd(16)
    I['@verifNondetU32'] = nd(32)
    I['@verifNondetU64'] = nd(64)
    I['@verifNondetInt'] = nd(64)
    I['@verifNondetI64'] = nd(64)

    def nd_bool(E, args):
        return E.add_nondet('bool', 0)
    I['@verifNondetBool'] = nd_bool

    def nd_bytes(E, args):
        n = E.conc_int(args[0], 64, True, 'nondet bytes len')
        return E.make_slice_from([E.add_nondet('bv', 8) for _ in range(n)])
    I['@verifNondetBytes'] = nd_bytes

    def nd_bytes_cap(E, args):
        n = E.conc_int(args[0], 64, True, 'nondet bytes len')
        c = E.conc_int(args[1], 64, True, 'nondet bytes cap')
        return _with_len(E.make_slice_from([E.add_nondet('bv', 8) for _ in range(c)]), n)
    I['@verifNondetBytesCap'] = nd_bytes_cap

    def nd_range(E, args):
        lo = E.conc_int(args[0], 64, True)
        hi = E.conc_int(args[1], 64, True)
        if E.concrete_vector is not None:
            i = len(E.nondets)
            x = E.concrete_vector[i] if i < len(E.concrete_vector) else lo
            E.nondets.append(x)
            if x < lo or x > hi:
                raise PathAbort('range')
            return x
        k = E.choose(hi - lo + 1)
        E.nondets.append(lo + k)
        return lo + k
    I['@verifNondetRange'] = nd_range

    def v_assume(E, args):
        E.assume(args[0])
    I['@verifAssume'] = v_assume

    def v_assert(E, args):
        tag = args[1].decode() if type(args[1]) is bytes else str(args[1])
        E.assert_(args[0], tag)
    I['@verifAssert'] = v_assert

    def v_reach(E, args):
        tag = args[0].decode()
        E.stats.reach[tag] = E.stats.reach.get(tag, 0) + 1
    I['@verifReach'] = v_reach

    def v_obs_u64(E, args):
        v = args[1]
        if is_sym(v) and not z3.is_bool(v):
            pass
        elif type(v) is int:
            v = v & 0xFFFFFFFFFFFFFFFF
        E.path_obs.append((args[0].decode(), 'u', v))
    I['@verifObserveU64'] = v_obs_u64
    I['@verifObserveBool'] = v_obs_u64

    def v_obs_bytes(E, args):
        E.path_obs.append((args[0].decode(), 'b', E.slice_list(args[1])))
    I['@verifObserveBytes'] = v_obs_bytes

    def v_obs_str(E, args):
        E.path_obs.append((args[0].decode(), 'b', list(E.bytes_of(args[1]))))
    I['@verifObserveStr'] = v_obs_str

    def v_note(E, args):
        E.path_notes.append(args)
    I['@verifNote'] = v_note

    def v_eqbytes(E, args):
        a, b = args
        if a.len != b.len:
            return False
        r = True
        la = E.slice_list(a)
        lb = E.slice_list(b)
        for x, y in zip(la, lb):
            r = E.and_(r, E.val_eq(x, y))
            if r is False:
                return False
        return r
    I['@verifEqBytes'] = v_eqbytes

    def v_eqstr(E, args):
        return E.val_eq(args[0], args[1])
    I['@verifEqStr'] = v_eqstr
    I['@verifAnd'] = lambda E, a: E.and_(a[0], a[1])
    I['@verifOr'] = lambda E, a: E.or_(a[0], a[1])
    I['@verifNot'] = lambda E, a: E.not_(a[0])
    I['@verifImplies'] = lambda E, a: E.or_(E.not_(a[0]), a[1])
    I['@verifIff'] = lambda E, a: E.val_eq(a[0], a[1])

    def v_ite64(E, args):
        return E.ite(args[0], args[1], args[2], 64)
    I['@verifIteU64'] = v_ite64

    def v_conc(E, args):
        return E.conc_int(args[0], 64, True, 'verifConcretize')
    I['@verifConcretize'] = v_conc

    def v_concbool(E, args):
        return E.branch(args[0])
    I['@verifBranch'] = v_concbool

    def v_rub(E, args):
        """verifRunUntilBlocked(f) bool: true when f blocked, false when it returned"""
        try:
            E.call_value(args[0], [])
        except Blocked:
            return True
        return False
    I['@verifRunUntilBlocked'] = v_rub

    def v_panics(E, args):
        """verifPanics(f) bool: runs f; true when it panicked (the panic is swallowed)"""
        try:
            E.call_value(args[0], [])
        except GoPanic:
            return True
        return False
    I['@verifPanics'] = v_panics

    I['@verifPatchClock'] = lambda E, a: (lambda E2, a2: None)
    I['@verifClockReadings'] = lambda E, a: E.clock_count
    I['@verifClockReadingAt'] = lambda E, a: E.clock_all[E.conc_int(a[0], 64, True)]
    I['@verifClockLast'] = lambda E, a: E.clock_last if E.clock_last is not None else 0

    def v_rungor(E, args):
        """verifRunGoroutines(f): run f (if not nil) and everything it spawns, round-robin, until quiescence;
        true when some goroutine is still blocked. May be called again to continue after the harness changed something."""
        from .sched import Scheduler
        if E.sched is None:
            E.sched = Scheduler(E)
        f = args[0]
        if f is not None:
            E.sched.spawn(lambda: E.call_value(f, []), name='main')
        return E.sched.run()
    I['@verifRunGoroutines'] = v_rungor

    def v_blockuntil(E, args):
        p = args[0]
        if E.in_goroutine():
            E.sched.block(lambda: E._truth(E.load(p)), what='transport (blocked until the harness flag is set)')
            return None
        if not E._truth(E.load(p)):
            raise Blocked()
        return None
    I['@verifBlockUntil'] = v_blockuntil

    def v_blocked_count(E, args):
        if E.sched is None:
            return 0
        return len([g for g in E.sched.gors if g.state == 'blocked'])
    I['@verifBlockedGoroutines'] = v_blocked_count

    def v_stop(E, args):
        raise GoExit()
    I['@verifStop'] = v_stop

    def v_spawned(E, args):
        return len(E.spawned)
    I['@verifSpawnCount'] = v_spawned

    def v_runspawn(E, args):
        """verifRunSpawned(i) bool: run i-th recorded goroutine until it blocks/returns"""
        i = E.conc_int(args[0], 64, True)
        p = E.spawned[i]
        try:
            E.run_prepared(p)
        except Blocked:
            return True
        return False
    I['@verifRunSpawned'] = v_runspawn

    def v_chansink(E, args):
        ch = args[0]
        E.chan_touch(ch)
        ch.sink = True
    I['@verifChanSink'] = v_chansink

    def v_chanlen(E, args):
        return len(args[0].items)
    I['@verifChanLen'] = v_chanlen

    def v_chansymfill(E, args):
        """verifChanSymFill(ch, n): channel holds n (symbolic) earlier opaque items"""
        ch = args[0]
        ch.symlen = args[1]
    I['@verifChanSymFill'] = v_chansymfill

    def v_arbmap(E, args):
        m = args[0]
        m.arbitrary = True
        m.arb_cache = None
    I['@verifArbitraryMap'] = v_arbmap

    # ---------------------------------------------------------------- formatting / errors
    def opaque_err(E, args, tag):
        wrapped = None
        if len(args) > 1 and type(args[1]) is Slice:
            for a in E.slice_list(args[1]):
                if type(a) is Iface and E.implements(a.t, _ERRIFACE):
                    wrapped = a
        return Iface(OPQ, OpaqueErr(tag, tuple(args), wrapped))
    I['fmt.Errorf'] = lambda E, a: opaque_err(E, a, 'Errorf')
    I['fmt.Sprintf'] = lambda E, a: OpaqueStr('Sprintf', tuple(a))

    def fmt_sscan(E, args):
        """fmt.Sscan(text, &x) for ONE unsigned/signed integer operand and concrete text: leading space skipped, the
        longest run of decimal digits is the token, whatever follows is left unread (as the real scanner does)"""
        text = args[0]
        ops = E.slice_list(args[1]) if type(args[1]) is Slice else []
        if len(ops) != 1 or type(ops[0]) is not Iface:
            raise Unsupported('fmt.Sscan with other than one operand')
        pu = E.types[ops[0].t].u
        eu = E.types[pu.elem].u if pu.k == 'ptr' else None
        if eu is None or eu.k != 'basic' or eu.name not in ('uint64', 'uint', 'uint32', 'int', 'int64'):
            raise Unsupported('fmt.Sscan operand type')
        signed = eu.name.startswith('int')
        bits = 32 if eu.name == 'uint32' else 64
        if type(text) is OpaqueStr and text.tag == 'dec' and not signed and bits == 64 and not text.parts[2]:
            E.store(ops[0].v, text.parts[0])
            return (1, None)
        if type(text) is not bytes:
            raise Unsupported('fmt.Sscan of symbolic text')
        t = text.decode('latin-1').lstrip(' \t\r\n')
        neg = False
        if t[:1] in ('+', '-') and signed:
            neg = t[0] == '-'
            t = t[1:]
        elif t[:1] == '+':
            t = t[1:]
        k = 0
        while k < len(t) and t[k] in '0123456789_':
            k += 1
        if (k and t[:2].lower() in ('0x', '0b', '0o')) or '_' in t[:k]:
            raise Unsupported('fmt.Sscan base prefix / underscore')
        if k == 0:
            return (0, Iface(OPQ, OpaqueErr('sscan: expected integer')))
        v = -int(t[:k]) if neg else int(t[:k])
        lo, hi = (-(1 << (bits - 1)), (1 << (bits - 1)) - 1) if signed else (0, (1 << bits) - 1)
        if not lo <= v <= hi:
            return (0, Iface(OPQ, OpaqueErr('sscan: value out of range')))
        E.store(ops[0].v, v)
        return (1, None)
    I['fmt.Sscan'] = fmt_sscan
    I['fmt.Sprint'] = lambda E, a: OpaqueStr('Sprint', tuple(a))
    I['fmt.Sprintln'] = lambda E, a: OpaqueStr('Sprintln', tuple(a))
    I['fmt.Fprintf'] = lambda E, a: (0, None)
    I['fmt.Printf'] = lambda E, a: (0, None)
    I['fmt.Println'] = lambda E, a: (0, None)
    I['log.Printf'] = lambda E, a: None
    I['log.Println'] = lambda E, a: None

    def opq_invoke(E, recv, method, args):
        if method == 'Error':
            return OpaqueStr('Error', (recv.v,))
        if method == 'Unwrap':
            return recv.v.wrapped
        raise Unsupported('method %s on opaque error' % method)
    Engine.special_invoke[OPQ] = opq_invoke
    Engine.special_methods[OPQ] = ('Error', 'Unwrap')

    def errors_as(E, args):
        err, target = args
        # target: interface holding pointer to a variable of the wanted type
        want = E.types[target.t].u.elem
        wu = E.types[want].u
        cur = err
        n = 0
        while cur is not None and n < 20:
            n += 1
            if wu.k == 'iface':
                ok = E.implements(cur.t, wu)
            else:
                ok = cur.t == want
            if ok:
                E.store(target.v, cur if wu.k == 'iface' else cur.v)
                return True
            cur = _unwrap(E, cur)
        return False
    I['errors.As'] = errors_as

    def errors_is(E, args):
        err, target = args
        cur = err
        n = 0
        while cur is not None and n < 20:
            n += 1
            try:
                e = E.val_eq(cur, target)
            except Unsupported:
                e = False
            if e is True:
                return True
            cur = _unwrap(E, cur)
        return False
    I['errors.Is'] = errors_is

    # ---------------------------------------------------------------- x25 as uninterpreted step function
    if opt.get('x25_uf'):
        crcstep = z3.Function('crcstep', z3.BitVecSort(16), z3.BitVecSort(8), z3.BitVecSort(16))
        E.uf['crcstep'] = crcstep
        _s = z3.Var(0, z3.BitVecSort(16))
        _b = z3.Var(1, z3.BitVecSort(8))
        _c = _s ^ z3.ZeroExt(8, _b)
        for _i in range(8):
            _c = z3.LShR(_c, 1) ^ (BV(0x8408, 16) & (0 - (_c & 1)))
        E.uf_defs.append((crcstep, _c))

        def crc_apply(E, st, b):
            # concrete arguments: the function proved equal to crcstep by lemma C02/L1 (bitwise reference)
            if type(st) is int and type(b) is int:
                c = (st ^ b) & 0xFFFF
                for _ in range(8):
                    c = (c >> 1) ^ 0x8408 if c & 1 else c >> 1
                return c
            return crcstep(E.tobv(st, 16), E.tobv(b, 8))

        def x25_write(E, args):
            x, p = args
            cp = Ptr(x.obj, x.path + (0,))
            st = E.load(cp)
            for b in E.slice_list(p):
                st = crc_apply(E, st, b)
            E.store(cp, st)
            return None
        I['(*github.com/bluenviron/gomavlib/v3/pkg/x25.X25).Write'] = x25_write

        def v_crcstep(E, args):
            return crc_apply(E, args[0], args[1])
        I['@verifCrcStep'] = v_crcstep

    # ---------------------------------------------------------------- sha256 as uninterpreted absorb chain
    sha_absorb = z3.Function('sha_absorb', z3.BitVecSort(64), z3.BitVecSort(8), z3.BitVecSort(64))
    sha_out = z3.Function('sha_out', z3.BitVecSort(64), z3.BitVecSort(8), z3.BitVecSort(8))
    E.uf['sha_absorb'] = sha_absorb
    SHA = '$sha256'

    def sha_new(E, args):
        return Iface(SHA, E.new_obj([BV(0, 64), 0]))
    I['crypto/sha256.New'] = sha_new

    def sha_invoke(E, recv, method, args):
        o = recv.v
        if method == 'Write':
            st = o.v[0]
            bs = E.slice_list(args[0])
            for b in bs:
                st = sha_absorb(st, E.tobv(b, 8))
            E.store(Ptr(o, (0,)), st)
            return (len(bs), None)
        if method == 'Sum':
            st = o.v[0]
            out = [sha_out(st, BV(i, 8)) for i in range(32)]
            return E.do_append(args[0], E.make_slice_from(out))
        if method == 'Reset':
            E.store(Ptr(o, (0,)), BV(0, 64))
            return None
        if method == 'Size':
            return 32
        if method == 'BlockSize':
            return 64
        if method == 'MarshalBinary':
            # the saved state is an injective image of the absorb-chain state (8 bytes here)
            st = o.v[0]
            return (E.make_slice_from([z3.simplify(z3.Extract(8 * i + 7, 8 * i, st)) for i in range(8)]), None)
        if method == 'UnmarshalBinary':
            bs = E.slice_list(args[0])
            if len(bs) != 8:
                return Iface(OPQ, OpaqueErr('sha256: invalid hash state'))
            E.store(Ptr(o, (0,)), z3.simplify(z3.Concat(*[E.tobv(b, 8) for b in reversed(bs)])))
            return None
        raise Unsupported('sha256 method ' + method)
    Engine.special_invoke[SHA] = sha_invoke
    Engine.special_methods[SHA] = ('Write', 'Sum', 'Reset', 'Size', 'BlockSize', 'MarshalBinary', 'UnmarshalBinary')

    def sha_sum256(E, args):
        st = BV(0, 64)
        for b in E.slice_list(args[0]):
            st = sha_absorb(st, E.tobv(b, 8))
        return tuple([sha_out(st, BV(i, 8)) for i in range(32)])
    I['crypto/sha256.Sum256'] = sha_sum256

    # ---------------------------------------------------------------- crypto/rand
    def rand_read(E, args):
        s = args[0]
        for i in range(s.len):
            E.slice_set(s, i, E.fresh('bv', 8, 'rand'))
        return (s.len, None)
    I['crypto/rand.Read'] = rand_read

    # ---------------------------------------------------------------- sync
    # mutexes: a lock table per path. A Lock on a held mutex blocks the goroutine (scheduler) or the harness
    # (Blocked: a deadlock of the sequential kernel); state: [writer held, readers]
    def mu_state(E, p):
        k = (id(p.obj), p.path)
        if k not in E.mutexes:
            E.keep.append(p.obj)
            E.mutexes[k] = [False, 0]
        return E.mutexes[k]

    def mu_wait(E, pred, what):
        if pred():
            return
        if E.in_goroutine():
            E.sched.block(pred, what=what)
            return
        raise Blocked()

    def mu_lock(E, args):
        st = mu_state(E, args[0])
        mu_wait(E, lambda: not st[0] and st[1] == 0, 'Mutex.Lock')
        st[0] = True
    I['(*sync.Mutex).Lock'] = mu_lock
    I['(*sync.RWMutex).Lock'] = mu_lock

    def mu_unlock(E, args):
        st = mu_state(E, args[0])
        if not st[0]:
            raise GoPanic('sync: unlock of unlocked mutex')
        st[0] = False
    I['(*sync.Mutex).Unlock'] = mu_unlock
    I['(*sync.RWMutex).Unlock'] = mu_unlock

    def mu_rlock(E, args):
        st = mu_state(E, args[0])
        mu_wait(E, lambda: not st[0], 'RWMutex.RLock')
        st[1] += 1
    I['(*sync.RWMutex).RLock'] = mu_rlock

    def mu_runlock(E, args):
        st = mu_state(E, args[0])
        if st[1] <= 0:
            raise GoPanic('sync: RUnlock of unlocked RWMutex')
        st[1] -= 1
    I['(*sync.RWMutex).RUnlock'] = mu_runlock

    def mu_trylock(E, args):
        st = mu_state(E, args[0])
        if st[0] or st[1]:
            return False
        st[0] = True
        return True
    I['(*sync.Mutex).TryLock'] = mu_trylock

    # sync.Map: a dictionary per map object. What is stored before the first path (package init, set-up function)
    # is the base every path starts from; keys are compared by value (strings / ints / pointers)
    def sm_key(E, k):
        if type(k) is Iface:
            v = k.v
            if isinstance(v, (bytes, int, bool)):
                return (k.t, v)
            if type(v) is SymStr and all(type(b) is int for b in v.bs):
                return (k.t, bytes(v.bs))
            if type(v) is Ptr:
                return (k.t, id(v.obj), v.path)
            raise Unsupported('sync.Map key of this kind')
        if k is None:
            return None
        raise Unsupported('sync.Map key')

    def sm_of(E, p):
        k = (id(p.obj), p.path)
        if k not in E.syncmaps:
            E.keep_base.append(p.obj)
            E.syncmaps[k] = {}
        return E.syncmaps[k]

    def sm_load(E, args):
        m = sm_of(E, args[0])
        k = sm_key(E, args[1])
        if k in m:
            return (m[k], True)
        return (None, False)
    I['(*sync.Map).Load'] = sm_load

    def sm_store(E, args):
        sm_of(E, args[0])[sm_key(E, args[1])] = args[2]
        return None
    I['(*sync.Map).Store'] = sm_store

    def sm_loadorstore(E, args):
        m = sm_of(E, args[0])
        k = sm_key(E, args[1])
        if k in m:
            return (m[k], True)
        m[k] = args[2]
        return (args[2], False)
    I['(*sync.Map).LoadOrStore'] = sm_loadorstore

    def sm_delete(E, args):
        sm_of(E, args[0]).pop(sm_key(E, args[1]), None)
        return None
    I['(*sync.Map).Delete'] = sm_delete

    def wg_key(p):
        return (id(p.obj), p.path)

    def wg_add(E, args):
        k = wg_key(args[0])
        E.keep.append(args[0].obj)
        E.wg_counters[k] = E.wg_counters.get(k, 0) + E.conc_int(args[1], 64, True)
    I['(*sync.WaitGroup).Add'] = wg_add

    def wg_done(E, args):
        k = wg_key(args[0])
        E.wg_counters[k] = E.wg_counters.get(k, 0) - 1
    I['(*sync.WaitGroup).Done'] = wg_done

    def wg_wait(E, args):
        k = wg_key(args[0])
        if E.in_goroutine():
            E.sched.block(lambda: E.wg_counters.get(k, 0) <= 0, what='WaitGroup.Wait')
        return None
    I['(*sync.WaitGroup).Wait'] = wg_wait

    # ---------------------------------------------------------------- math
    I['math.Float32bits'] = lambda E, a: a[0].v
    I['math.Float64bits'] = lambda E, a: a[0].v
    I['math.Float32frombits'] = lambda E, a: FloatV(32, a[0])
    I['math.Float64frombits'] = lambda E, a: FloatV(64, a[0])

    # harness helpers for floats: bit views without going through package math
    I['@verifF32bits'] = lambda E, a: a[0].v
    I['@verifF64bits'] = lambda E, a: a[0].v
    I['@verifF32frombits'] = lambda E, a: FloatV(32, a[0])
    I['@verifF64frombits'] = lambda E, a: FloatV(64, a[0])

    # ---------------------------------------------------------------- bytes / strings (contracts)
    def bytes_repeat(E, args):
        b, n = args
        n = E.conc_int(n, 64, True, 'bytes.Repeat count')
        if n < 0:
            raise GoPanic('bytes.Repeat negative count')
        return E.make_slice_from(E.slice_list(b) * n)
    I['bytes.Repeat'] = bytes_repeat

    def bytes_indexbyte(E, args):
        """bytes.IndexByte / strings.IndexByte: first position holding c (forks per position on symbolic content)"""
        b, c = args
        elems = E.slice_list(b) if type(b) is Slice else list(E.bytes_of(b))
        for k, e in enumerate(elems):
            if E.branch(E.val_eq(e, c)):
                return k
        return -1
    I['bytes.IndexByte'] = bytes_indexbyte
    I['strings.IndexByte'] = bytes_indexbyte
    I['internal/bytealg.IndexByte'] = bytes_indexbyte
    I['internal/bytealg.IndexByteString'] = bytes_indexbyte

    def bytes_equal(E, args):
        return v_eqbytes(E, args)
    I['bytes.Equal'] = bytes_equal

    def strings_hasprefix(E, args):
        s, p = args
        if type(s) is bytes and type(p) is bytes:
            return s.startswith(p)
        raise Unsupported('strings.HasPrefix symbolic')
    I['strings.HasPrefix'] = strings_hasprefix

    def strings_join(E, args):
        elems, sep = args
        parts = E.slice_list(elems)
        if all(type(p) is bytes for p in parts) and type(sep) is bytes:
            return sep.join(parts)
        if len(parts) == 1:
            return parts[0]
        return OpaqueStr('join', (tuple(parts), sep))
    I['strings.Join'] = strings_join

    def strings_split(E, args):
        s, sep = args
        if type(s) is bytes and type(sep) is bytes:
            if sep == b'':
                raise Unsupported('split empty sep')
            return E.make_slice_from(s.split(sep))
        if type(s) is OpaqueStr and s.tag == 'join' and s.parts[1] == sep:
            # Split(Join(parts, sep), sep) == parts when no part contains sep
            parts = s.parts[0]
            for p in parts:
                if type(p) is bytes and sep in p:
                    raise Unsupported('join/split with separator inside a part')
                if type(p) is not bytes and not (type(p) is OpaqueStr and p.tag == 'dec'):
                    raise Unsupported('join/split of opaque part')
            return E.make_slice_from(list(parts))
        if type(s) is OpaqueStr and s.tag == 'dec':
            return E.make_slice_from([s])
        raise Unsupported('strings.Split symbolic')
    I['strings.Split'] = strings_split

    def strconv_itoa(E, args):
        x = args[0]
        if type(x) is int:
            return str(x).encode()
        return OpaqueStr('dec', (x, 64, True))
    I['strconv.Itoa'] = strconv_itoa

    def strconv_atoi(E, args):
        s = args[0]
        if type(s) is bytes:
            try:
                t = s.decode()
                if t.strip() != t or '_' in t or not t or not all(c in '0123456789+-' for c in t):
                    raise ValueError
                v = int(t)
                if not -(1 << 63) <= v < (1 << 63):
                    raise ValueError
                return (v, None)
            except (ValueError, UnicodeDecodeError):
                return (0, Iface(OPQ, OpaqueErr('atoi')))
        if type(s) is OpaqueStr and s.tag == 'dec':
            x, bits, signed = s.parts
            if not signed:
                # an unsigned decimal of 2^63 or more does not fit an int: Atoi reports a range error
                if E.branch(E.cmp_int('>=', x, 1 << 63, 64, False)):
                    return ((1 << 63) - 1, Iface(OPQ, OpaqueErr('atoi: value out of range')))
            return (x, None)
        raise Unsupported('strconv.Atoi of %r' % (s,))
    I['strconv.Atoi'] = strconv_atoi

    def strconv_formatuint(E, args):
        x, base = args
        if type(x) is int and type(base) is int and base == 10:
            return str(x).encode()
        if type(base) is int and base == 10:
            return OpaqueStr('dec', (x, 64, False))
        raise Unsupported('FormatUint base')
    I['strconv.FormatUint'] = strconv_formatuint
    I['strconv.FormatInt'] = lambda E, a: (str(a[0]).encode() if type(a[0]) is int and a[1] == 10
                                          else OpaqueStr('dec', (a[0], 64, True)))

    def strconv_parseuint(E, args):
        s, base, bits = args
        if type(s) is bytes:
            try:
                t = s.decode()
                if base != 10 and base != 0:
                    raise Unsupported('ParseUint base')
                if not t or not all(c in '0123456789' for c in t):
                    raise ValueError
                v = int(t)
                if v >= (1 << (bits or 64)):
                    raise ValueError
                return (v, None)
            except (ValueError, UnicodeDecodeError):
                return (0, Iface(OPQ, OpaqueErr('parseuint')))
        if type(s) is OpaqueStr and s.tag == 'dec' and not s.parts[2]:
            return (s.parts[0], None)
        if type(s) is OpaqueStr and s.tag == 'dec':
            # signed decimal parsed as unsigned: fails when negative
            x = s.parts[0]
            if E.branch(E.cmp_int('<', x, 0, 64, True)):
                return (0, Iface(OPQ, OpaqueErr('parseuint')))
            return (x, None)
        raise Unsupported('strconv.ParseUint of %r' % (s,))
    I['strconv.ParseUint'] = strconv_parseuint

    # ---------------------------------------------------------------- reflect (subset; static type + location)
    def rt_iface(tid):
        return Iface(RTYPE, ReflectType(tid))

    def ptr_tid(E, tid):
        p = E.ptrto.get(tid)
        if p is None:
            raise Unsupported('pointer type of %s not in type table' % tid)
        return p

    def r_typeof(E, args):
        x = args[0]
        if x is None:
            return None
        return rt_iface(x.t)
    I['reflect.TypeOf'] = r_typeof

    def r_valueof(E, args):
        x = args[0]
        if x is None:
            return ReflectValue(None)
        return ReflectValue(x.t, imm=x.v)
    I['reflect.ValueOf'] = r_valueof

    def r_new(E, args):
        t = args[0].v.t
        o = E.new_obj(thaw(E.zero(t)))
        return ReflectValue(ptr_tid(E, t), imm=Ptr(o, ()))
    I['reflect.New'] = r_new

    def rv_get(E, v):
        if v.ptr is not None:
            return E.load(v.ptr)
        return v.imm

    def r_elem(E, args):
        v = args[0]
        u = E.types[v.t].u
        if u.k == 'ptr':
            p = rv_get(E, v)
            if p is None:
                return ReflectValue(None)
            return ReflectValue(u.elem, ptr=p, addressable=True)
        if u.k == 'iface':
            x = rv_get(E, v)
            if x is None:
                return ReflectValue(None)
            return ReflectValue(x.t, imm=x.v)
        raise GoPanic('reflect: Elem of non-pointer')
    I['(reflect.Value).Elem'] = r_elem

    def r_field(E, args):
        v, i = args
        u = E.types[v.t].u
        if u.k != 'struct':
            raise GoPanic('reflect: Field of non-struct')
        i = E.conc_int(i, 64, True)
        if i < 0 or i >= len(u.fields):
            raise GoPanic('reflect: Field index out of range')
        ft = u.fields[i]['type']
        if v.ptr is not None:
            return ReflectValue(ft, ptr=Ptr(v.ptr.obj, v.ptr.path + (i,)), addressable=v.addressable)
        return ReflectValue(ft, imm=v.imm[i])
    I['(reflect.Value).Field'] = r_field

    def r_fieldbyname(E, args):
        v, name = args
        u = E.types[v.t].u
        if u.k != 'struct':
            raise GoPanic('reflect: FieldByName of non-struct')
        for i, f in enumerate(u.fields):
            if f['name'].encode() == name:
                return r_field(E, [v, i])
        return ReflectValue(None)
    I['(reflect.Value).FieldByName'] = r_fieldbyname

    def r_kind(E, args):
        v = args[0]
        if v.t is None:
            return 0
        return kind_of(E, v.t)
    I['(reflect.Value).Kind'] = r_kind

    KIND_NAMES = ['invalid', 'bool', 'int', 'int8', 'int16', 'int32', 'int64', 'uint', 'uint8', 'uint16', 'uint32', 'uint64',
                  'uintptr', 'float32', 'float64', 'complex64', 'complex128', 'array', 'chan', 'func', 'interface', 'map',
                  'ptr', 'slice', 'string', 'struct', 'unsafe.Pointer']

    def r_kind_string(E, args):
        k = E.conc_int(args[0], 64, False)
        if 0 <= k < len(KIND_NAMES):
            return KIND_NAMES[k].encode()
        return b'kind' + str(k).encode()
    I['(reflect.Kind).String'] = r_kind_string

    def kind_of(E, tid):
        u = E.types[tid].u
        if u.k == 'basic':
            return KIND[u.name]
        return KKIND[u.k]

    def r_len(E, args):
        v = args[0]
        u = E.types[v.t].u
        if u.k == 'array':
            return u.len
        x = rv_get(E, v)
        if u.k == 'slice':
            return x.len
        if u.k == 'basic' and u.name == 'string':
            return len(x)
        raise GoPanic('reflect: Len of unsupported kind')
    I['(reflect.Value).Len'] = r_len

    def r_index(E, args):
        v, i = args
        u = E.types[v.t].u
        i = E.conc_int(i, 64, True)
        if u.k == 'array':
            if i < 0 or i >= u.len:
                raise GoPanic('reflect: array index out of range')
            if v.ptr is not None:
                return ReflectValue(u.elem, ptr=Ptr(v.ptr.obj, v.ptr.path + (i,)), addressable=v.addressable)
            return ReflectValue(u.elem, imm=v.imm[i])
        if u.k == 'slice':
            s = rv_get(E, v)
            if i < 0 or i >= s.len:
                raise GoPanic('reflect: slice index out of range')
            return ReflectValue(u.elem, ptr=Ptr(s.obj, s.path + (s.off + i,)), addressable=True)
        raise GoPanic('reflect: Index of unsupported kind')
    I['(reflect.Value).Index'] = r_index

    def r_addr(E, args):
        v = args[0]
        if not v.addressable or v.ptr is None:
            raise GoPanic('reflect.Value.Addr of unaddressable value')
        return ReflectValue(ptr_tid(E, v.t), imm=v.ptr)
    I['(reflect.Value).Addr'] = r_addr

    def r_interface(E, args):
        v = args[0]
        if v.t is None:
            raise GoPanic('reflect: Interface of zero Value')
        x = rv_get(E, v)
        if E.types[v.t].u.k == 'iface':
            return x
        return Iface(v.t, x)
    I['(reflect.Value).Interface'] = r_interface

    def r_uint(E, args):
        v = args[0]
        u = E.types[v.t].u
        if u.k != 'basic' or not u.bits or u.signed or u.name.startswith('float'):
            raise GoPanic('reflect: Uint of non-uint kind %s' % u.name)
        x = rv_get(E, v)
        return E.convert_int(x, u.bits, False, 64, False)
    I['(reflect.Value).Uint'] = r_uint

    def r_int(E, args):
        v = args[0]
        u = E.types[v.t].u
        if u.k != 'basic' or not u.bits or not u.signed or u.name.startswith('float'):
            raise GoPanic('reflect: Int of non-int kind')
        x = rv_get(E, v)
        return E.convert_int(x, u.bits, True, 64, True)
    I['(reflect.Value).Int'] = r_int

    def r_setuint(E, args):
        v, x = args
        u = E.types[v.t].u
        if u.k != 'basic' or not u.bits or u.signed or u.name.startswith('float'):
            raise GoPanic('reflect: SetUint of non-uint kind')
        if not v.addressable:
            raise GoPanic('reflect: SetUint on unaddressable value')
        E.store(v.ptr, E.convert_int(x, 64, False, u.bits, False))
        return None
    I['(reflect.Value).SetUint'] = r_setuint

    def r_float(E, args):
        v = args[0]
        u = E.types[v.t].u
        if u.k != 'basic' or not u.name.startswith('float'):
            raise GoPanic('reflect: Float of non-float kind')
        x = rv_get(E, v)
        if u.bits == 64:
            return x
        return E.float_convert(x, u, E.types['float64'].u)
    I['(reflect.Value).Float'] = r_float

    def r_setfloat(E, args):
        v, x = args
        u = E.types[v.t].u
        if u.k != 'basic' or not u.name.startswith('float'):
            raise GoPanic('reflect: SetFloat of non-float kind')
        if not v.addressable:
            raise GoPanic('reflect: SetFloat on unaddressable value')
        if u.bits == 32:
            x = E.float_convert(x, E.types['float64'].u, u)
        E.store(v.ptr, x)
        return None
    I['(reflect.Value).SetFloat'] = r_setfloat

    def r_setint(E, args):
        v, x = args
        u = E.types[v.t].u
        if u.k != 'basic' or not u.bits or not u.signed:
            raise GoPanic('reflect: SetInt of non-int kind')
        if not v.addressable:
            raise GoPanic('reflect: SetInt on unaddressable value')
        E.store(v.ptr, E.convert_int(x, 64, True, u.bits, True))
        return None
    I['(reflect.Value).SetInt'] = r_setint

    def r_set(E, args):
        v, x = args
        if not v.addressable:
            raise GoPanic('reflect: Set on unaddressable value')
        E.store(v.ptr, rv_get(E, x))
        return None
    I['(reflect.Value).Set'] = r_set

    def r_copy(E, args):
        """reflect.Copy(dst, src): element-wise, min(len) elements (lengths concrete on the path)"""
        dst, src = args
        if E.types[dst.t].u.k == 'array' and not dst.addressable:
            raise GoPanic('reflect.Copy: unaddressable array')
        n = min(E.conc_int(r_len(E, (dst,)), 64, True), E.conc_int(r_len(E, (src,)), 64, True))
        vals = [rv_get(E, r_index(E, (src, i))) for i in range(n)]
        for i in range(n):
            E.store(r_index(E, (dst, i)).ptr, vals[i])
        return n
    I['reflect.Copy'] = r_copy

    def _conj(cs):
        if all(type(c) is bool for c in cs):
            return all(cs)
        return z3.And(*[z3.BoolVal(c) if type(c) is bool else c for c in cs])

    def _iszero_val(E, tid, x):
        """reflect.Value.IsZero on a value of type tid (Go 1.23 semantics: floats by `== 0`, so -0.0 IS zero)"""
        u = E.types[tid].u
        if u.k == 'basic':
            if u.name == 'bool':
                return E.bool_not(x) if hasattr(E, 'bool_not') else (not x if type(x) is bool else z3.Not(x))
            if u.name == 'string':
                return len(x) == 0
            if u.name.startswith('float'):
                mask = (1 << (u.bits - 1)) - 1
                v = x.v
                if type(v) is int:
                    return (v & mask) == 0
                return (v & BV(mask, u.bits)) == BV(0, u.bits)
            if u.bits:
                return E.cmp_int('==', x, 0, u.bits, u.signed)
            raise Unsupported('IsZero of basic ' + u.name)
        if u.k == 'array':
            xs = x if isinstance(x, (list, tuple)) else None
            if xs is None:
                raise Unsupported('IsZero of array representation')
            return _conj([_iszero_val(E, u.elem, e) for e in xs])
        if u.k == 'struct':
            return _conj([_iszero_val(E, f['type'], e) for f, e in zip(u.fields, x) if f['name'] != '_'])
        if u.k in ('ptr', 'map', 'chan', 'func', 'iface'):
            return x is None
        if u.k == 'slice':
            return x is None or getattr(x, 'obj', 1) is None
        raise Unsupported('IsZero of kind ' + u.k)

    def r_iszero(E, args):
        v = args[0]
        if v.t is None:
            raise GoPanic('reflect: call of reflect.Value.IsZero on zero Value')
        return _iszero_val(E, v.t, rv_get(E, v))
    I['(reflect.Value).IsZero'] = r_iszero

    def r_isvalid(E, args):
        return args[0].t is not None
    I['(reflect.Value).IsValid'] = r_isvalid

    def r_type(E, args):
        return rt_iface(args[0].t)
    I['(reflect.Value).Type'] = r_type

    def struct_field(E, tid, i):
        u = E.types[tid].u
        f = u.fields[i]
        sf = E.types['reflect.StructField'].u
        vals = []
        for fd in sf.fields:
            n = fd['name']
            if n == 'Name':
                vals.append(f['name'].encode())
            elif n == 'PkgPath':
                vals.append(b'' if f.get('exp') else b'pkg')
            elif n == 'Type':
                vals.append(rt_iface(f['type']))
            elif n == 'Tag':
                vals.append(f.get('tag', '').encode())
            elif n == 'Offset':
                vals.append(0)
            elif n == 'Index':
                vals.append(E.make_slice_from([i]))
            elif n == 'Anonymous':
                vals.append(bool(f.get('emb')))
            else:
                vals.append(E.zero(fd['type']))
        return tuple(vals)

    def rtype_invoke(E, recv, method, args):
        t = recv.v.t
        ty = E.types[t]
        u = ty.u
        if method == 'Field':
            i = E.conc_int(args[0], 64, True)
            if u.k != 'struct' or i < 0 or i >= len(u.fields or []):
                raise GoPanic('reflect: Field index out of bounds')
            return struct_field(E, t, i)
        if method == 'Elem':
            if u.k in ('ptr', 'slice', 'array', 'chan', 'map'):
                return rt_iface(u.elem)
            raise GoPanic('reflect: Elem of invalid type')
        if method == 'Kind':
            return kind_of(E, t)
        if method == 'Name':
            if ty.k == 'named':
                return ty.name.encode()
            if ty.k == 'basic':
                return ty.name.encode()
            return b''
        if method == 'NumField':
            if u.k != 'struct':
                raise GoPanic('reflect: NumField of non-struct type')
            return len(u.fields or [])
        if method == 'Len':
            return u.len
        if method == 'String':
            return t.encode()
        raise Unsupported('reflect.Type method ' + method)
    Engine.special_invoke[RTYPE] = rtype_invoke
    Engine.special_methods[RTYPE] = ('Elem', 'Kind', 'Name', 'NumField', 'Len', 'String', 'Field')

    def tag_get(E, args):
        tag, key = args
        if type(tag) is not bytes or type(key) is not bytes:
            raise Unsupported('StructTag.Get symbolic')
        import re
        # conventional format: key:"value" pairs separated by spaces
        for m in re.finditer(rb'([^\s:"]+):"((?:[^"\\]|\\.)*)"', tag):
            if m.group(1) == key:
                return m.group(2)
        return b''
    I['(reflect.StructTag).Get'] = tag_get

    # regexp on concrete strings (used by the message name conversion)
    def re_compile(E, args):
        return Iface('$regexp', args[0])
    I['regexp.MustCompile'] = re_compile

    def re_replace_all_string(E, args):
        rx, src, repl = args
        if type(src) is not bytes or type(repl) is not bytes:
            raise Unsupported('regexp on symbolic string')
        import re
        pat = rx.v.decode()
        r = re.sub(r'\$\{(\w+)\}', lambda m: '\\g<%s>' % m.group(1), repl.decode())
        r = re.sub(r'\$(\d+)', lambda m: '\\g<%s>' % m.group(1), r)
        return re.sub(pat, r, src.decode()).encode()
    I['(*regexp.Regexp).ReplaceAllString'] = re_replace_all_string

    def _conc_strs(args, what):
        for a in args:
            if type(a) is not bytes:
                raise Unsupported(what + ' on a symbolic string')
        return args

    def strings_replaceall(E, args):
        s, old, new = _conc_strs(args, 'strings.ReplaceAll')
        if old == b'':
            raise Unsupported('ReplaceAll with empty pattern')
        return s.replace(old, new)
    I['strings.ReplaceAll'] = strings_replaceall

    def strings_replace(E, args):
        s, old, new = _conc_strs(args[:3], 'strings.Replace')
        n = E.conc_int(args[3], 64, True)
        if old == b'':
            raise Unsupported('Replace with empty pattern')
        return s.replace(old, new) if n < 0 else s.replace(old, new, n)
    I['strings.Replace'] = strings_replace
    I['strings.TrimPrefix'] = lambda E, a: (lambda s, p: s[len(p):] if s.startswith(p) else s)(*_conc_strs(a, 'strings.TrimPrefix'))
    I['strings.TrimSuffix'] = lambda E, a: (lambda s, p: s[:len(s) - len(p)] if p and s.endswith(p) else s)(*_conc_strs(a, 'strings.TrimSuffix'))
    I['strings.HasSuffix'] = lambda E, a: (lambda s, p: s.endswith(p))(*_conc_strs(a, 'strings.HasSuffix'))
    I['strings.Contains'] = lambda E, a: (lambda s, p: p in s)(*_conc_strs(a, 'strings.Contains'))
    I['strings.Index'] = lambda E, a: (lambda s, p: s.find(p))(*_conc_strs(a, 'strings.Index'))
    I['strings.TrimSpace'] = lambda E, a: _conc_strs(a, 'strings.TrimSpace')[0].strip(b' \t\n\r\v\f')
    I['strings.Title'] = lambda E, a: _conc_strs(a, 'strings.Title')[0].title()
    I['strings.EqualFold'] = lambda E, a: (lambda s, p: s.lower() == p.lower())(*_conc_strs(a, 'strings.EqualFold'))

    def strings_tolower(E, args):
        if type(args[0]) is bytes:
            return args[0].lower()
        raise Unsupported('ToLower symbolic')
    I['strings.ToLower'] = strings_tolower

    def strings_toupper(E, args):
        if type(args[0]) is bytes:
            return args[0].upper()
        raise Unsupported('ToUpper symbolic')
    I['strings.ToUpper'] = strings_toupper

    # strings.Builder / bytes as a list of byte values per builder object (reset per path)
    def sb_of(E, p):
        k = (id(p.obj), p.path)
        if k not in E.builders:
            E.keep.append(p.obj)  # keeps the object alive, so that its id() is not reused within the path
            E.builders[k] = []
        return E.builders[k]

    def sb_str_bytes(E, x):
        if type(x) is bytes:
            return list(x)
        if type(x) is SymStr:
            return list(x.bs)
        raise Unsupported('strings.Builder: string of this kind')

    def sb_result(bs):
        if all(type(b) is int for b in bs):
            return bytes(bs)
        return SymStr(bs)

    def sb_writestring(E, args):
        bs = sb_str_bytes(E, args[1])
        sb_of(E, args[0]).extend(bs)
        return (len(bs), None)
    I['(*strings.Builder).WriteString'] = sb_writestring

    def sb_writebyte(E, args):
        sb_of(E, args[0]).append(args[1])
        return None
    I['(*strings.Builder).WriteByte'] = sb_writebyte

    def sb_writerune(E, args):
        r = args[1]
        if type(r) is not int:
            raise Unsupported('strings.Builder.WriteRune of a symbolic rune')
        r &= 0xFFFFFFFF
        if r >= 0x80000000 or r > 0x10FFFF or 0xD800 <= r <= 0xDFFF:
            enc = b'\xef\xbf\xbd'
        else:
            enc = chr(r).encode('utf-8')
        sb_of(E, args[0]).extend(enc)
        return (len(enc), None)
    I['(*strings.Builder).WriteRune'] = sb_writerune

    def sb_write(E, args):
        bs = E.slice_list(args[1])
        sb_of(E, args[0]).extend(bs)
        return (len(bs), None)
    I['(*strings.Builder).Write'] = sb_write
    I['(*strings.Builder).String'] = lambda E, a: sb_result(sb_of(E, a[0]))
    I['(*strings.Builder).Len'] = lambda E, a: len(sb_of(E, a[0]))
    I['(*strings.Builder).Grow'] = lambda E, a: None

    def sb_reset(E, args):
        del sb_of(E, args[0])[:]
        return None
    I['(*strings.Builder).Reset'] = sb_reset

    def sort_lemma(E, s, less, stable=False):
        """C03 (b): the comparator handed to sort.Slice by message.(*ReadWriter).Initialize, evaluated on three field
        descriptors with SYMBOLIC type, index and extension flag (precondition: extension fields are declared after
        every base field): it is a strict total order and coincides with the MAVLink field order. Triples suffice
        for transitivity, so the result does not depend on the number of fields or on the sort algorithm."""
        if s.len < 3:
            raise Unsupported('sort lemma needs 3 fields')
        pt = E.types[E.types[E.types['[]*github.com/bluenviron/gomavlib/v3/pkg/message.decEncoderField'].u.elem].u.elem].u
        fidx = {f['name']: k for k, f in enumerate(pt.fields)}
        elems = [E.slice_get(s, k) for k in range(3)]
        ft, ix, ex = [], [], []
        for k, p in enumerate(elems):
            t = E.add_nondet('bv', 64)
            E.assume(z3.And(z3.UGE(t, BV(1, 64)), z3.ULE(t, BV(11, 64))))
            reps = E.opt.get('sort_lemma_types')
            if reps:
                E.assume(z3.Or([t == BV(r, 64) for r in reps]))
            t = E.concretize(t, 'field type')  # fork over the field types; index and extension flag stay symbolic
            idx = E.add_nondet('bv', 64)
            E.assume(z3.ULT(idx, BV(1000, 64)))
            e = E.add_nondet('bool', 0)
            E.store(Ptr(p.obj, p.path + (fidx['ftype'],)), t)
            E.store(Ptr(p.obj, p.path + (fidx['index'],)), idx)
            E.store(Ptr(p.obj, p.path + (fidx['isExtension'],)), e)
            ft.append(t)
            # concrete re-execution (confirmation of a counterexample) supplies plain values
            ix.append(BV(idx, 64) if type(idx) is int else idx)
            ex.append(z3.BoolVal(e) if type(e) is bool else e)
        for a in range(3):
            for b in range(a + 1, 3):
                E.assume(ix[a] != ix[b])
                # extensions are declared after base fields
                E.assume(z3.Implies(z3.And(ex[a], z3.Not(ex[b])), z3.UGT(ix[a], ix[b])))
                E.assume(z3.Implies(z3.And(ex[b], z3.Not(ex[a])), z3.UGT(ix[b], ix[a])))

        def size_of(t):
            # MAVLink wire sizes of the 11 field types in the order of the fieldType constants
            sizes = [8, 8, 8, 4, 4, 4, 2, 2, 1, 1, 1]
            return BV(sizes[t - 1], 64)

        def spec_less(a, b):
            both_base = z3.And(z3.Not(ex[a]), z3.Not(ex[b]))
            sa, sb = size_of(ft[a]), size_of(ft[b])
            return z3.If(z3.And(both_base, sa != sb), z3.UGT(sa, sb),
                         z3.If(z3.And(z3.Not(ex[a]), ex[b]), z3.BoolVal(True),
                               z3.If(z3.And(ex[a], z3.Not(ex[b])), z3.BoolVal(False), z3.ULT(ix[a], ix[b]))))
        L = {}
        for a in range(3):
            for b in range(3):
                c = E.call_value(less, [a, b])
                L[(a, b)] = c if type(c) is not bool else z3.BoolVal(c)
        def tie(a, b):
            return z3.And(z3.Not(L[(a, b)]), z3.Not(L[(b, a)]))
        for a in range(3):
            E.assert_(z3.Not(L[(a, a)]), 'C03/order/irreflexive')
            for b in range(3):
                if a != b:
                    E.assert_(z3.Not(z3.And(L[(a, b)], L[(b, a)])), 'C03/order/asymmetric')
                    if stable:
                        # a stable sort keeps tied elements in their input (= declaration) order: the comparator has to
                        # be a strict weak order whose ties, broken by declaration index, give the MAVLink order
                        E.assert_(z3.Or(L[(a, b)], z3.And(tie(a, b), z3.ULT(ix[a], ix[b]))) == spec_less(a, b),
                                  'C03/order/is-mavlink-field-order')
                    else:
                        # sort.Slice is not stable (pdqsort above 12 elements): every pair has to be ordered
                        E.assert_(z3.Or(L[(a, b)], L[(b, a)]), 'C03/order/total')
                        E.assert_(L[(a, b)] == spec_less(a, b), 'C03/order/is-mavlink-field-order')
                    for c2 in range(3):
                        if c2 != a and c2 != b:
                            E.assert_(z3.Implies(z3.And(L[(a, b)], L[(b, c2)]), L[(a, c2)]), 'C03/order/transitive')
                            if stable:
                                E.assert_(z3.Implies(z3.And(tie(a, b), tie(b, c2)), tie(a, c2)), 'C03/order/ties-transitive')
        E.stats.reach['C03/order'] = E.stats.reach.get('C03/order', 0) + 1
        raise GoExit()

    def sort_slice(E, args, stable=False):
        """sort.Slice / sort.SliceStable: in-place (stable) insertion sort driven by the real comparator closure. For the
        unstable sort.Slice any correct algorithm gives the same result only when the comparator orders every pair —
        that is what the C03 lemma establishes for the one call site that matters."""
        x, less = args
        s = x.v
        n = s.len
        if E.opt.get('sort_lemma'):
            return sort_lemma(E, s, less, stable)
        for i in range(1, n):
            j = i
            while j > 0:
                c = E.call_value(less, [j, j - 1])
                if type(c) is not bool:
                    c = E.branch(c)
                if not c:
                    break
                a = E.slice_get(s, j)
                b = E.slice_get(s, j - 1)
                a = freeze(a) if type(a) is list else a
                b = freeze(b) if type(b) is list else b
                E.slice_set(s, j, b)
                E.slice_set(s, j - 1, a)
                j -= 1
        return None
    I['sort.Slice'] = sort_slice
    I['sort.SliceStable'] = lambda E, a: sort_slice(E, a, True)

    # ---------------------------------------------------------------- time (clock)
    def time_since_ns(E):
        """symbolic clock reading: nanoseconds since signatureReferenceDate (2015-01-01), non-decreasing, and below
        2^48 * 10 us (year 2104), the range in which the 48-bit MAVLink timestamp is defined"""
        v = E.add_nondet('bv', 64)
        E.assume(E.cmp_int('<', v, (1 << 48) * 10000, 64, False))
        if E.clock_last is not None:
            E.assume(E.cmp_int('>=', v, E.clock_last, 64, False))
        E.clock_last = v
        E.clock_count += 1
        E.clock_all.append(v)
        return v
    if opt.get('clock_stub', True):
        I['time.Since'] = lambda E, a: time_since_ns(E)

    # ---------------------------------------------------------------- context
    CTX = '$ctx'

    def ctx_background(E, args):
        return Iface(CTX, E.new_obj([None, None]))  # [done chan, parent]
    I['context.Background'] = ctx_background
    I['context.TODO'] = ctx_background

    def ctx_expire(E, o):
        """virtual time: a WithTimeout context is done once the logged timer waits add up to its timeout"""
        dl = o.v[2] if len(o.v) > 2 else None
        d = o.v[0]
        if dl is not None and d is not None and not d.closed and E.vtime >= dl:
            E.chan_touch(d)
            d.closed = True

    def ctx_with_cancel(E, args, timeout=None):
        parent = args[0]
        done = ChanObj(0, E.epoch)
        deadline = None
        if timeout is not None and type(timeout) is int:
            deadline = E.vtime + timeout
        o = E.new_obj([done, parent, deadline])
        # a cancelled parent cancels the child
        if parent is not None and parent.v.v[0] is not None and parent.v.v[0].closed:
            done.closed = True
        kids = E.ctx_children.setdefault(id(parent.v) if parent is not None else 0, [])
        kids.append(o)

        def cancel(E2, a2):
            stack = [o]
            while stack:
                c = stack.pop()
                d = c.v[0]
                if d is not None and not d.closed:
                    E2.chan_touch(d)
                    d.closed = True
                stack.extend(E2.ctx_children.get(id(c), []))
            return None
        return (Iface(CTX, o), cancel)
    I['context.WithCancel'] = ctx_with_cancel
    I['context.WithTimeout'] = lambda E, a: ctx_with_cancel(E, a[:1], a[1])
    I['context.WithDeadline'] = lambda E, a: ctx_with_cancel(E, a[:1])

    def ctx_invoke(E, recv, method, args):
        o = recv.v
        ctx_expire(E, o)
        if method == 'Done':
            return o.v[0]
        if method == 'Err':
            d = o.v[0]
            if d is not None and d.closed:
                return Iface(OPQ, OpaqueErr('context canceled'))
            return None
        raise Unsupported('context method ' + method)
    Engine.special_invoke[CTX] = ctx_invoke
    Engine.special_methods[CTX] = ('Done', 'Err', 'Deadline', 'Value')

    # ---------------------------------------------------------------- timers
    def time_after(E, args):
        """time.After(d): the timer is treated as having fired (the channel is ready); d is logged"""
        E.timer_log.append(args[0])
        ch = ChanObj(1, E.epoch)
        if getattr(E, 'timers_pending', False):
            return ch  # the harness asked for timers that have not elapsed yet
        if type(args[0]) is int and args[0] > 0:
            E.vtime += args[0]  # virtual time advances by the waits that are treated as elapsed
        ch.items.append(E.zero('time.Time'))
        return ch
    I['time.After'] = time_after

    def v_timers_pending(E, args):
        E.timers_pending = bool(args[0])
    I['@verifTimersPending'] = v_timers_pending

    def time_newticker(E, args):
        E.timer_log.append(args[0])
        t = E.types['time.Ticker'].u
        vals = [E.zero(f['type']) for f in t.fields]
        ch = ChanObj(1, E.epoch)
        for k in range(E.opt.get('ticks', 1)):
            # with the clock stub a tick carries a clock reading (the instant it fired), else the zero Time
            ch.items.append(I['time.Now'](E, []) if E.opt.get('now_stub') and 'time.Now' in I else E.zero('time.Time'))
        ch.cap = max(1, len(ch.items))
        for i, f in enumerate(t.fields):
            if f['name'] == 'C':
                vals[i] = ch
        return Ptr(E.new_obj(thaw(tuple(vals))), ())
    I['time.NewTicker'] = time_newticker
    I['(*time.Ticker).Stop'] = lambda E, a: None
    I['(*time.Timer).Stop'] = lambda E, a: True

    def time_newtimer(E, args):
        """time.NewTimer(d): a one-shot timer treated as having fired once (like time.After) unless the harness asked
        for pending timers; only Reset re-arms it. The wait is logged when the tick is received, not at creation."""
        t = E.types['time.Timer'].u
        vals = [E.zero(f['type']) for f in t.fields]
        ch = ChanObj(1, E.epoch)
        ch.timer_d = args[0]
        if not getattr(E, 'timers_pending', False):
            ch.items.append(E.zero('time.Time'))
        for i, f in enumerate(t.fields):
            if f['name'] == 'C':
                vals[i] = ch
        return Ptr(E.new_obj(thaw(tuple(vals))), ())
    I['time.NewTimer'] = time_newtimer

    def time_timer_reset(E, args):
        t = E.types['time.Timer'].u
        v = args[0].obj.v
        for k in args[0].path:
            v = v[k]
        for i, f in enumerate(t.fields):
            if f['name'] == 'C':
                ch = v[i]
                ch.timer_d = args[1]
                if not ch.items and not getattr(E, 'timers_pending', False):
                    ch.items.append(E.zero('time.Time'))
        return True
    I['(*time.Timer).Reset'] = time_timer_reset

    def v_timerlog_len(E, args):
        return len(E.timer_log)
    I['@verifTimerCount'] = v_timerlog_len

    def v_timerlog_get(E, args):
        return E.timer_log[E.conc_int(args[0], 64, True)]
    I['@verifTimerDuration'] = v_timerlog_get
    I['@verifPatchTimers'] = lambda E, a: (lambda E2, a2: None)

    def v_setdialer(E, args):
        E.dial_hook = args[0]
    I['@verifSetDialer'] = v_setdialer

    def v_dial_pending(E, args):
        E.dial_pending = bool(args[0])
    I['@verifDialPending'] = v_dial_pending

    def dial_wait(E, ctx_done):
        """a connection attempt that gets no answer while the harness keeps dials pending: it ends when the harness lets
        it go or, for a dial bound to a context, when that context is done"""
        if not getattr(E, 'dial_pending', False):
            return
        pred = (lambda: not E.dial_pending or ctx_done())
        if E.in_goroutine():
            E.sched.block(pred, what='dial (no answer yet)')
        elif not pred():
            raise Blocked()

    def dial_timeout(E, args):
        if getattr(E, 'dial_hook', None) is None:
            raise Unsupported('net dial without a harness dialer')
        dial_wait(E, lambda: False)  # bound to its own timeout only, which the model never lets elapse
        return E.call_value(E.dial_hook, [])
    I['net.DialTimeout'] = dial_timeout
    I['net.Dial'] = dial_timeout

    def dial_context(E, args):
        if getattr(E, 'dial_hook', None) is None:
            raise Unsupported('net dial without a harness dialer')
        ctx = args[1] if len(args) > 1 else None
        if type(ctx) is Iface and ctx.t == CTX:
            def done():
                ctx_expire(E, ctx.v)
                dd = ctx.v.v[0]
                return dd is not None and dd.closed
            dial_wait(E, done)
            ctx_expire(E, ctx.v)
            d = ctx.v.v[0]
            if d is not None and d.closed:
                # the dial context is already done: DialContext fails at once, whatever the network would do
                E.call_value(E.dial_hook, [])  # the attempt is still counted by the harness
                return (None, Iface(OPQ, OpaqueErr('context deadline exceeded')))
        return E.call_value(E.dial_hook, [])
    I['(*net.Dialer).DialContext'] = dial_context

    def split_host_port(E, args):
        s = args[0]
        if type(s) is bytes and b':' in s:
            h, _, p = s.rpartition(b':')
            return (h, p, None)
        return (b'', b'', Iface(OPQ, OpaqueErr('splithostport')))
    I['net.SplitHostPort'] = split_host_port

    def v_chanpush(E, args):
        """verifChanPush(ch, item): place an item in a channel regardless of its capacity (a sender is waiting)"""
        ch = args[0]
        E.chan_touch(ch)
        ch.items.append(args[1])
    I['@verifChanPush'] = v_chanpush

    def v_chanonsend(E, args):
        ch = args[0]
        ch.sink = True
        E.chan_hooks[id(ch)] = args[1]
    I['@verifChanOnSend'] = v_chanonsend

    REF_SEC0 = 1420070400 + 62135596800

    def mk_clock(E, ns):
        """the time.Time that verifClockRef.Add(time.Duration(ns)) returns for 0 <= ns < 2^62: no monotonic reading,
        wall = nanoseconds within the second, ext = seconds since year 1, loc = nil (UTC); plus the reading itself"""
        if type(ns) is int:
            r = ClockTime((ns % 1000000000, REF_SEC0 + ns // 1000000000, None))
        else:
            r = ClockTime((z3.URem(ns, BV(1000000000, 64)), BV(REF_SEC0, 64) + z3.UDiv(ns, BV(1000000000, 64)), None))
        r.ns = ns
        return r

    def time_date(E, args):
        """time.Date for concrete arguments in normal ranges: the Time it returns for the UTC location (loc stored as
        nil, as Time.setLoc does); for any other location the wall-clock fields are taken as given and the location
        pointer is kept, so such a Time is never equal to a UTC one (no time-zone data in the model)"""
        import calendar
        vals = []
        for a in args[:7]:
            if type(a) is not int:
                raise Unsupported('time.Date with symbolic arguments')
            vals.append(a if a < (1 << 63) else a - (1 << 64))
        y, mo, d, h, mi, sec, ns = vals
        if not (1 <= mo <= 12 and 1 <= d <= 31 and 0 <= h < 24 and 0 <= mi < 60 and 0 <= sec < 60 and 0 <= ns < 1000000000 and 1 <= y <= 9999):
            raise Unsupported('time.Date outside normal ranges')
        unix = calendar.timegm((y, mo, d, h, mi, sec))
        loc = args[7]
        utc = E.globals.get('time.utcLoc')
        if loc is None:
            # time.UTC / time.Local are nil when package time is not initialised in this check: unknown, as before
            raise Unsupported('time.Date: nil location (package time is not initialised in this check)')
        if utc is not None and type(loc) is Ptr and loc.obj is utc and loc.path == ():
            loc = None
        return (ns, (unix + 62135596800) & ((1 << 64) - 1), loc)
    I['time.Date'] = time_date

    def time_now(E, args):
        """time.Now(): wall clock with arbitrary non-decreasing unix nanoseconds; Time{wall: 0, ext: sec since year 1, loc: Local}"""
        ns = time_since_ns(E)
        # exactly what verifClockRef.Add(time.Duration(ns)) computes: the real Time.Add on 2015-01-01T00:00:00Z
        # (wall = 0: no monotonic reading; ext = seconds since year 1; loc = nil: UTC)
        return mk_clock(E, ns)
    if opt.get('now_stub'):
        I['time.Now'] = time_now

        def v_clock_at(E, args):
            return mk_clock(E, args[0])
        I['@verifClockAt'] = v_clock_at

        # documented contracts of Sub / Equal / Add on two instants both produced by the clock stub (differences fit
        # a Duration by the clock contract, so Sub never saturates); any other argument runs the real code
        REF_SEC = 1420070400 + 62135596800

        def concrete_ns(t):
            """ns since the reference date of a fully concrete Time without monotonic reading, else None"""
            if type(t) is ClockTime or not isinstance(t, tuple) or len(t) != 3:
                return None
            wall, ext, loc = t
            if type(wall) is not int or type(ext) is not int:
                return None
            if wall & (1 << 63):
                return None
            return (ext - REF_SEC) * 1000000000 + (wall & 0x3FFFFFFF)

        def t_sub(E, args):
            a, b = args
            if type(a) is ClockTime and type(b) is ClockTime:
                return E.arith('-', a.ns, b.ns, 64, True)
            # a concrete instant against a clock instant: documented contract incl. saturation
            lo, hi = 0, (1 << 48) * 10000
            ca, cb = concrete_ns(a), concrete_ns(b)
            if ca is not None and type(b) is ClockTime:
                if ca - lo < -(1 << 63):
                    return -(1 << 63)
                if ca - hi >= -(1 << 63) and ca - lo < (1 << 63):
                    return E.arith('-', norm(ca, 64, True), b.ns, 64, True)
            if cb is not None and type(a) is ClockTime:
                if lo - cb >= (1 << 63) or hi - cb >= (1 << 63) and lo - cb >= (1 << 63):
                    return (1 << 63) - 1
                if hi - cb < (1 << 63) and lo - cb >= -(1 << 63):
                    return E.arith('-', a.ns, norm(cb, 64, True), 64, True)
            return E.call(E.prog.funcs['(time.Time).Sub'], args, raw=True)

        def t_add(E, args):
            t, d = args
            if type(t) is not ClockTime:
                return E.call(E.prog.funcs['(time.Time).Add'], args, raw=True)
            r = None
            if type(d) is int or is_sym(d):
                # stays a clock instant while the sum remains in the clock's range (checked by the solver)
                s = E.arith('+', t.ns, d, 64, True)
                inrange = E.and_(E.cmp_int('>=', s, 0, 64, True), E.cmp_int('<', s, (1 << 62), 64, True))
                noovf = E.cmp_int('>=', d, -(1 << 62), 64, True)
                noovf = E.and_(noovf, E.cmp_int('<', d, 1 << 62, 64, True))
                if E.valid(z3.And(*[c if is_sym(c) else z3.BoolVal(c) for c in (inrange, noovf)])):
                    return mk_clock(E, s)
            return E.call(E.prog.funcs['(time.Time).Add'], args, raw=True)
        I['(time.Time).Add'] = t_add
        I['(time.Time).Sub'] = t_sub

        def t_equal(E, args):
            a, b = args
            if type(a) is ClockTime and type(b) is ClockTime:
                return E.val_eq(a.ns, b.ns)
            return E.call(E.prog.funcs['(time.Time).Equal'], args, raw=True)
        I['(time.Time).Equal'] = t_equal


_ERRIFACE = None


class _ErrIface:
    k = 'iface'
    imeths = ['Error']


_ERRIFACE = _ErrIface()


def _unwrap(E, err):
    if err is None:
        return None
    if err.t == OPQ:
        return err.v.wrapped
    t = E.types.get(err.t)
    if t is not None and t.methods and 'Unwrap' in t.methods:
        r = E.call(E.prog.funcs[t.methods['Unwrap']], [err.v])
        if type(r) is Iface or r is None:
            return r
    return None


def _with_len(s, n):
    return Slice(s.obj, s.path, s.off, n, s.cap)
