"""Runtime value representations of the gosym executor."""
import z3


class GoPanic(Exception):
    def __init__(self, kind, value=None):
        Exception.__init__(self, kind)
        self.kind = kind
        self.value = value


class Blocked(Exception):
    """The (single) goroutine cannot proceed: a select/recv/send with nothing ready."""


class PathAbort(Exception):
    """Path ended silently (infeasible or assumption false)."""


class Unsupported(Exception):
    """The engine cannot model something on this path: the run is inconclusive."""


class GoExit(Exception):
    """harness called verifStop()"""


class Obj:
    __slots__ = ('v', 'epoch', 'tag')

    def __init__(self, v, epoch, tag=None):
        self.v = v
        self.epoch = epoch
        self.tag = tag


class Ptr:
    __slots__ = ('obj', 'path')

    def __init__(self, obj, path=()):
        self.obj = obj
        self.path = path

    def __eq__(self, o):
        return type(o) is Ptr and o.obj is self.obj and o.path == self.path

    def __ne__(self, o):
        return not self.__eq__(o)

    def __hash__(self):
        return hash((id(self.obj), self.path))

    def __repr__(self):
        return 'Ptr(%x,%s)' % (id(self.obj) & 0xffffff, self.path)


class Slice:
    __slots__ = ('obj', 'path', 'off', 'len', 'cap')

    def __init__(self, obj, path, off, ln, cap):
        self.obj = obj
        self.path = path
        self.off = off
        self.len = ln
        self.cap = cap

    def __repr__(self):
        if self.obj is None:
            return 'Slice(nil)'
        return 'Slice(%x,%s,%d,%d,%d)' % (id(self.obj) & 0xffffff, self.path, self.off, self.len, self.cap)


NILSLICE = Slice(None, (), 0, 0, 0)


class Iface:
    __slots__ = ('t', 'v')

    def __init__(self, t, v):
        self.t = t
        self.v = v

    def __repr__(self):
        return 'Iface(%s,%r)' % (self.t, self.v)


class Closure:
    __slots__ = ('fn', 'binds')

    def __init__(self, fn, binds):
        self.fn = fn
        self.binds = binds


class FloatV:
    __slots__ = ('bits', 'v', 'src')

    def __init__(self, bits, v, src=None):
        self.bits = bits
        self.v = v
        self.src = src  # the float32 bit pattern this float64 was widened from, if any

    def __repr__(self):
        return 'FloatV(%d,%r)' % (self.bits, self.v)


class SymStr:
    """string with concrete length and (possibly) symbolic bytes"""
    __slots__ = ('bs',)

    def __init__(self, bs):
        self.bs = tuple(bs)

    def __len__(self):
        return len(self.bs)

    def __repr__(self):
        return 'SymStr(%d)' % len(self.bs)


class OpaqueStr:
    """string produced by a stub (formatting); only identity is known"""
    __slots__ = ('tag', 'parts')

    def __init__(self, tag, parts=()):
        self.tag = tag
        self.parts = parts

    def __repr__(self):
        return 'OpaqueStr(%s)' % (self.tag,)


class MapObj:
    __slots__ = ('d', 'sym', 'epoch', 'kt', 'vt', 'order', 'arbitrary', 'arb_cache')

    def __init__(self, epoch, kt=None, vt=None):
        self.d = {}       # concrete hashable key -> value
        self.sym = []     # list of (key term, value)
        self.epoch = epoch
        self.kt = kt
        self.vt = vt
        self.arbitrary = False
        self.arb_cache = None


class ChanObj:
    __slots__ = ('cap', 'items', 'closed', 'sink', 'epoch', 'name', 'sent', 'symlen', 'recvd', 'timer_d')

    def __init__(self, cap, epoch):
        self.cap = cap
        self.items = []
        self.closed = False
        self.sink = False
        self.epoch = epoch
        self.name = None
        self.sent = 0
        self.recvd = 0
        self.symlen = None   # optional symbolic number of pre-existing opaque items
        self.timer_d = None  # channel of a time.Timer: the duration it was armed with (logged when the tick is received)


class RangeIter:
    __slots__ = ('items', 'pos', 'kind')

    def __init__(self, kind, items):
        self.kind = kind
        self.items = items
        self.pos = 0


class OpaqueErr:
    """payload of an opaque error interface (fmt.Errorf etc.)"""
    __slots__ = ('tag', 'args', 'wrapped')

    def __init__(self, tag, args=(), wrapped=None):
        self.tag = tag
        self.args = args
        self.wrapped = wrapped


class ReflectValue:
    """reflect.Value: static type + (pointer to location | immediate value)"""
    __slots__ = ('t', 'ptr', 'imm', 'addressable')

    def __init__(self, t, ptr=None, imm=None, addressable=False):
        self.t = t
        self.ptr = ptr
        self.imm = imm
        self.addressable = addressable


class ReflectType:
    __slots__ = ('t',)

    def __init__(self, t):
        self.t = t

    def __eq__(self, o):
        return isinstance(o, ReflectType) and o.t == self.t

    def __hash__(self):
        return hash(self.t)


def freeze(x):
    if type(x) is list:
        return tuple([freeze(e) for e in x])
    if type(x) is ClockList:
        if x.ns is not None:
            r = ClockTime([freeze(e) for e in x])
            r.ns = x.ns
            return r
        return tuple([freeze(e) for e in x])
    return x


class ClockTime(tuple):
    """time.Time value produced by the clock stub: the real representation (tuple content) plus the
    nanoseconds since the harness reference date it stands for"""
    ns = None


class ClockList(list):
    """in-memory form of a ClockTime; ns is dropped as soon as a component is overwritten"""
    ns = None


def thaw(x):
    if type(x) is tuple:
        return [thaw(e) for e in x]
    if type(x) is ClockTime:
        r = ClockList([thaw(e) for e in x])
        r.ns = x.ns
        return r
    return x


def is_sym(v):
    return isinstance(v, z3.ExprRef)
