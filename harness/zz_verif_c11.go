package gomavlib

import (
	"github.com/bluenviron/gomavlib/v3/pkg/frame"
	"github.com/bluenviron/gomavlib/v3/pkg/message"
)

func verifLinkChannel(n *Node) (*Channel, *verifRWC) {
	rwc := &verifRWC{}
	ch := &Channel{node: n, rwc: rwc}
	if err := ch.initialize(); err != nil {
		panic(err)
	}
	return ch, rwc
}

// expected wire of an originated message on a link of the node (unsigned)
func verifOriginated(n *Node, seq byte, spec frame.VerifMsgSpec, full []byte) []byte {
	comp := n.OutComponentID
	if comp == 0 {
		comp = 1
	}
	if n.OutVersion == V1 {
		payload := full[:spec.SizeNormal()]
		ck := frame.VerifSpecChecksumV1(seq, n.OutSystemID, comp, byte(spec.ID()), payload, spec.CRCExtra())
		return frame.VerifSpecV1(seq, n.OutSystemID, comp, byte(spec.ID()), payload, ck)
	}
	payload := frame.VerifTruncate(full)
	ck := frame.VerifSpecChecksumV2(0, 0, seq, n.OutSystemID, comp, spec.ID(), payload, spec.CRCExtra())
	return frame.VerifSpecV2(0, 0, seq, n.OutSystemID, comp, spec.ID(), payload, ck, false, 0, 0, nil)
}

// an arbitrary raw frame to be forwarded (its own header fields), and its spec bytes
func verifForwardFrame(v2 bool) (frame.Frame, []byte) {
	seq, sys, comp, compat := verifNondetU8(), verifNondetU8(), verifNondetU8(), verifNondetU8()
	ck := verifNondetU16()
	payload := verifNondetBytes(2)
	keep := []byte{payload[0], payload[1]}
	if !v2 {
		return &frame.V1Frame{SequenceNumber: seq, SystemID: sys, ComponentID: comp, Checksum: ck,
			Message: &message.MessageRaw{ID: 77, Payload: payload}}, frame.VerifSpecV1(seq, sys, comp, 77, keep, ck)
	}
	return &frame.V2Frame{CompatibilityFlag: compat, SequenceNumber: seq, SystemID: sys, ComponentID: comp, Checksum: ck,
		Message: &message.MessageRaw{ID: 77777, Payload: payload}}, frame.VerifSpecV2(0, compat, seq, sys, comp, 77777, keep, ck, false, 0, 0, nil)
}

// K3: the writer of a channel drains its queue in order, one transport Write per item, each a whole frame;
// messages get the link's ids and consecutive sequence numbers, forwarded frames keep their own bytes.
// arrangement 0: msg, frame, msg; 1: frame, frame, msg; 2: msg, msg, frame
func verifHarness_C11_drain(version int, arrangement int) {
	sys, comp := verifNondetU8(), verifNondetU8()
	verifAssume(sys >= 1)
	n := verifBareNode(Version(version), sys, comp)
	ch, rwc := verifLinkChannel(n)
	kinds := [][3]int{{0, 1, 0}, {1, 1, 0}, {0, 0, 1}}[arrangement]
	var exp []byte
	seq := byte(0)
	for i := 0; i < 3; i++ {
		if kinds[i] == 0 {
			msg, full, spec := frame.VerifMsg(2-i/2, 2)
			raw, err := n.encodeMessage(msg)
			verifAssert(err == nil, "C11/K3/encode-ok")
			ch.chWrite <- raw
			exp = append(exp, verifOriginated(n, seq, spec, full)...)
			seq++
		} else {
			fr, wire := verifForwardFrame(i%2 == 1)
			ch.chWrite <- fr
			exp = append(exp, wire...)
		}
	}
	term := make(chan struct{})
	blocked := verifRunUntilBlocked(func() { ch.runWriter(term) }) //nolint:errcheck
	verifAssert(blocked, "C11/K3/writer-waits-for-more")
	verifAssert(rwc.Calls() == 3, "C11/K3/one-transport-write-per-item")
	verifAssert(verifEqBytes(rwc.Buf(), exp), "C11/K3/frames-whole-in-queue-order")
	verifReach("C11/K3")
}

// K4: each Write* entry point encodes in the caller and performs exactly one hand-over on its own request channel
func verifHarness_C11_caller(api int) {
	n := verifBareNode(V2, 1, 1)
	target := verifBareChannel(n)
	verifChanSink(n.chWriteAll)
	verifChanSink(n.chWriteTo)
	verifChanSink(n.chWriteExcept)
	msg, full, spec := frame.VerifMsg(2, 2)
	wantPayload := frame.VerifTruncate(full)
	var fr frame.Frame
	if api >= 3 {
		fr = &frame.V2Frame{SequenceNumber: 9, SystemID: 8, ComponentID: 7, Message: msg}
	}
	v1frame := api >= 6
	if v1frame {
		// a version 1 frame routed by a version 2 node keeps its own version: base layout, no truncation
		fr = &frame.V1Frame{SequenceNumber: 9, SystemID: 8, ComponentID: 7, Message: msg}
		wantPayload = full[:spec.SizeNormal()]
		api -= 3
	}
	var err error
	switch api {
	case 0:
		err = n.WriteMessageAll(msg)
	case 1:
		err = n.WriteMessageTo(target, msg)
	case 2:
		err = n.WriteMessageExcept(target, msg)
	case 3:
		err = n.WriteFrameAll(fr)
	case 4:
		err = n.WriteFrameTo(target, fr)
	default:
		err = n.WriteFrameExcept(target, fr)
	}
	verifAssert(err == nil, "C11/K4/ok")
	// hand-over is synchronous (unbuffered request channels): a caller's next write cannot overtake this one
	verifAssert(cap(n.chWriteAll) == 0 && cap(n.chWriteTo) == 0 && cap(n.chWriteExcept) == 0, "C11/K4/request-channels-synchronous")
	na, nt, ne := len(n.chWriteAll), len(n.chWriteTo), len(n.chWriteExcept)
	verifAssert(na+nt+ne == 1, "C11/K4/exactly-one-hand-over")
	var what interface{}
	switch api % 3 {
	case 0:
		verifAssert(na == 1, "C11/K4/right-request-channel")
		what = <-n.chWriteAll
	case 1:
		verifAssert(nt == 1, "C11/K4/right-request-channel")
		req := <-n.chWriteTo
		verifAssert(req.ch == target, "C11/K4/target-kept")
		what = req.what
	default:
		verifAssert(ne == 1, "C11/K4/right-request-channel")
		req := <-n.chWriteExcept
		verifAssert(req.except == target, "C11/K4/target-kept")
		what = req.what
	}
	var raw *message.MessageRaw
	if api < 3 {
		raw, _ = what.(*message.MessageRaw)
	} else {
		if v1frame {
			f1, ok := what.(*frame.V1Frame)
			verifAssert(ok && f1.SequenceNumber == 9 && f1.SystemID == 8 && f1.ComponentID == 7, "C11/K4/forwarded-frame-keeps-header")
			if ok {
				raw, _ = f1.Message.(*message.MessageRaw)
			}
		} else {
			f2, ok := what.(*frame.V2Frame)
			verifAssert(ok && f2.SequenceNumber == 9 && f2.SystemID == 8 && f2.ComponentID == 7, "C11/K4/forwarded-frame-keeps-header")
			if ok {
				raw, _ = f2.Message.(*message.MessageRaw)
			}
		}
	}
	verifAssert(raw != nil, "C11/K4/encoded-in-caller")
	if raw != nil {
		verifAssert(raw.ID == spec.ID() && verifEqBytes(raw.Payload, wantPayload), "C11/K4/encoded-payload")
	}
	verifReach("C11/K4")
}

// C13 (stall): channel A is full, channel B healthy. Two targeted writes arrive, first to A then to B:
// the node loop must get past A (discarding for A only) and deliver to B.
func verifHarness_C13_stall(kind int) {
	n := verifBareNode(V2, 1, 1)
	a, b := verifBareChannel(n), verifBareChannel(n)
	n.channels[a] = struct{}{}
	n.channels[b] = struct{}{}
	verifChanSymFill(a.chWrite, writeBufferSize)
	fillB := verifNondetInt()
	verifAssume(fillB >= 0 && fillB < writeBufferSize)
	verifChanSymFill(b.chWrite, fillB)
	x := &message.MessageRaw{ID: 7, Payload: []byte{1}}
	y := &message.MessageRaw{ID: 8, Payload: []byte{2}}
	switch kind {
	case 0:
		verifChanPush(n.chWriteTo, writeToReq{a, x})
		verifChanPush(n.chWriteTo, writeToReq{b, y})
	case 1:
		verifChanPush(n.chWriteExcept, writeExceptReq{b, x})
		verifChanPush(n.chWriteExcept, writeExceptReq{a, y})
	default:
		verifChanPush(n.chWriteAll, interface{}(x))
		verifChanPush(n.chWriteAll, interface{}(y))
	}
	blocked := verifRunUntilBlocked(func() { n.run() })
	verifAssert(blocked, "C13/S/loop-waits-for-next-request")
	verifAssert(len(n.chWriteTo) == 0 && len(n.chWriteExcept) == 0 && len(n.chWriteAll) == 0, "C13/S/both-requests-consumed")
	gotA, _ := verifDrainNew(a)
	gotB, firstB := verifDrainNew(b)
	verifAssert(gotA == 0, "C13/S/full-channel-discards")
	if kind == 2 {
		verifAssert(gotB == 2 || (gotB == 1 && fillB == writeBufferSize-1), "C13/S/healthy-channel-still-served")
	} else {
		verifAssert(gotB == 1 && firstB == interface{}(y), "C13/S/healthy-channel-still-served")
	}
	verifReach("C13/S")
}

// K4 (router without a dialect): a node configured with no dialect forwards frames whose message is already raw
// (what it received) through all three WriteFrame entry points: accepted, handed over exactly once, unchanged; a
// decoded message cannot be written without a dialect and is refused with nothing handed over.
// api 0..2: WriteFrameAll / To / Except with a raw v2 frame; 3..5: the same with a raw v1 frame; 6: WriteMessageAll
// of a decoded message.
func verifHarness_C11_router_nodialect(api int) {
	n := &Node{OutVersion: V2, OutSystemID: 1, Endpoints: []EndpointConf{verifEndpointConf{&verifEndpoint{one: true}}}}
	verifAssert(n.Initialize() == nil, "C11/K4r/init")
	target := verifBareChannel(n)
	verifChanSink(n.chWriteAll)
	verifChanSink(n.chWriteTo)
	verifChanSink(n.chWriteExcept)
	id := verifNondetU32()
	verifAssume(id < 1<<24)
	payload := verifNondetBytes(3)
	raw := &message.MessageRaw{ID: id, Payload: payload}
	if api == 6 {
		msg, _, _ := frame.VerifMsg(2, 2)
		verifAssert(n.WriteMessageAll(msg) != nil, "C11/K4r/decoded-message-refused-without-a-dialect")
		verifAssert(len(n.chWriteAll)+len(n.chWriteTo)+len(n.chWriteExcept) == 0, "C11/K4r/nothing-handed-over")
		verifReach("C11/K4r")
		return
	}
	var fr frame.Frame = &frame.V2Frame{SequenceNumber: 9, SystemID: 8, ComponentID: 7, Checksum: verifNondetU16(), Message: raw}
	if api >= 3 {
		verifAssume(id <= 0xFF)
		fr = &frame.V1Frame{SequenceNumber: 9, SystemID: 8, ComponentID: 7, Checksum: verifNondetU16(), Message: raw}
	}
	var err error
	var what interface{}
	switch api % 3 {
	case 0:
		err = n.WriteFrameAll(fr)
		verifAssert(err == nil && len(n.chWriteAll) == 1, "C11/K4r/raw-frame-accepted-and-handed-over")
		if len(n.chWriteAll) == 1 {
			what = <-n.chWriteAll
		}
	case 1:
		err = n.WriteFrameTo(target, fr)
		verifAssert(err == nil && len(n.chWriteTo) == 1, "C11/K4r/raw-frame-accepted-and-handed-over")
		if len(n.chWriteTo) == 1 {
			req := <-n.chWriteTo
			verifAssert(req.ch == target, "C11/K4r/target-kept")
			what = req.what
		}
	default:
		err = n.WriteFrameExcept(target, fr)
		verifAssert(err == nil && len(n.chWriteExcept) == 1, "C11/K4r/raw-frame-accepted-and-handed-over")
		if len(n.chWriteExcept) == 1 {
			req := <-n.chWriteExcept
			verifAssert(req.except == target, "C11/K4r/target-kept")
			what = req.what
		}
	}
	verifAssert(len(n.chWriteAll)+len(n.chWriteTo)+len(n.chWriteExcept) == 0, "C11/K4r/exactly-one-hand-over")
	verifAssert(what == interface{}(fr), "C11/K4r/the-frame-itself-is-forwarded")
	verifAssert(fr.GetMessage() == message.Message(raw) && verifEqBytes(raw.Payload, payload), "C11/K4r/raw-message-untouched")
	verifReach("C11/K4r")
}
