package gomavlib

import (
	"io"

	"github.com/bluenviron/gomavlib/v3/pkg/frame"
	"github.com/bluenviron/gomavlib/v3/pkg/message"
)

func verifKey() (*frame.V2Key, []byte) {
	kb := verifNondetBytes(32)
	k := new(frame.V2Key)
	copy(k[:], kb)
	return k, kb
}

// a valid v2 frame of harness message shape 2 with sequence number seq (unsigned, or signed with key kb)
func verifValidFrame(seq byte, kb []byte, ts uint64) []byte {
	sys, comp := verifNondetU8(), verifNondetU8()
	_, full, spec := frame.VerifMsg(2, 0)
	payload := append([]byte(nil), full...)
	// keep the payload canonical and fork-free: last byte non-zero
	verifAssume(payload[len(payload)-1] != 0)
	if kb == nil {
		ck := frame.VerifSpecChecksumV2(0, 0, seq, sys, comp, spec.ID(), payload, spec.CRCExtra())
		return frame.VerifSpecV2(0, 0, seq, sys, comp, spec.ID(), payload, ck, false, 0, 0, nil)
	}
	ck := frame.VerifSpecChecksumV2(1, 0, seq, sys, comp, spec.ID(), payload, spec.CRCExtra())
	link := verifNondetU8()
	sig := frame.VerifSpecSignature(kb, 1, 0, seq, sys, comp, spec.ID(), payload, ck, link, ts)
	return frame.VerifSpecV2(1, 0, seq, sys, comp, spec.ID(), payload, ck, true, link, ts, sig)
}

// a valid v1 frame of harness message shape 2 (base layout, 5 bytes)
func verifValidV1Frame(seq byte) []byte {
	sys, comp := verifNondetU8(), verifNondetU8()
	_, full, spec := frame.VerifMsg(2, 0)
	payload := append([]byte(nil), full[:spec.SizeNormal()]...)
	ck := frame.VerifSpecChecksumV1(seq, sys, comp, byte(spec.ID()), payload, spec.CRCExtra())
	return frame.VerifSpecV1(seq, sys, comp, byte(spec.ID()), payload, ck)
}

// C10 (data clauses): events produced by a channel's reader for a stream made of junk bytes, valid frames and
// complete frames with a wrong checksum (keyed: wrong/missing signature): open first, then exactly one event per
// item in arrival order, attributed to the channel; the reader returns the transport's error at the end.
// chunk: size of the transport's first read (0 = everything at once).
func verifHarness_C10_reader(keyed int, chunk int) {
	n := verifBareNode(V2, 1, 1)
	var kb []byte
	if keyed == 1 {
		n.InKey, kb = verifKey()
	}
	var stream []byte
	// all signed frames carry the same (arbitrary) timestamp: inside the replay window (C07) by construction
	ts := verifNondetU64()
	verifAssume(ts < 1<<48)
	junk := verifNondetU8()
	verifAssume(junk != 0xFE && junk != 0xFD)
	stream = append(stream, junk)                          // -> parse error
	stream = append(stream, verifValidFrame(10, kb, ts)...)    // -> frame, seq 10
	// the rejected frame carries any timestamp at all: an unauthenticated frame must not influence what follows
	badTs := verifNondetU64()
	verifAssume(badTs < 1<<48)
	bad := verifValidFrame(11, kb, badTs)                      // wrong checksum (unkeyed) / wrong signature (keyed)
	flip := verifNondetU8()
	verifAssume(flip != 0)
	if keyed == 1 {
		bad[len(bad)-1] ^= flip
	} else {
		bad[10+9] ^= flip             // low checksum byte of a 9-byte payload frame
	}
	stream = append(stream, bad...)                        // -> parse error
	if keyed == 1 {
		stream = append(stream, verifValidFrame(12, nil, ts)...) // unsigned frame on a keyed link -> parse error
		stream = append(stream, verifValidV1Frame(14)...)        // v1 frame on a keyed link -> parse error
	}
	stream = append(stream, verifValidFrame(13, kb, ts)...)    // -> frame, seq 13
	var chunks []int
	if chunk > 0 {
		chunks = []int{chunk}
	}
	rwc := &verifRWC{rd: frame.VerifChunkReader(stream, chunks)}
	ch := &Channel{node: n, rwc: rwc}
	verifAssert(ch.initialize() == nil, "C10/channel-init")
	verifChanSink(n.chEvent)
	var rerr error
	blocked := verifRunUntilBlocked(func() { rerr = ch.runReader() })
	verifAssert(!blocked, "C10/reader-ends-with-the-stream")
	verifAssert(rerr == io.EOF, "C10/reader-returns-transport-error")
	want := []int{0, 2, 1, 2, 1} // 0 open, 1 frame, 2 parse error
	seqs := []byte{0, 0, 10, 0, 13}
	if keyed == 1 {
		want = []int{0, 2, 1, 2, 2, 2, 1}
		seqs = []byte{0, 0, 10, 0, 0, 0, 13}
	}
	verifAssert(len(n.chEvent) == len(want), "C10/one-event-per-item")
	for i := 0; i < len(want) && len(n.chEvent) > 0; i++ {
		evt := <-n.chEvent
		switch e := evt.(type) {
		case *EventChannelOpen:
			verifAssert(want[i] == 0 && e.Channel == ch, "C10/open-first-and-attributed")
		case *EventFrame:
			verifAssert(want[i] == 1 && e.Channel == ch, "C10/frame-event-in-order-and-attributed")
			verifAssert(e.Frame.GetSequenceNumber() == seqs[i], "C10/frame-event-is-the-arrived-frame")
			_, isRaw := e.Frame.GetMessage().(*message.MessageRaw)
			verifAssert(!isRaw, "C10/frame-decoded")
		case *EventParseError:
			verifAssert(want[i] == 2 && e.Channel == ch, "C10/rejected-input-is-a-parse-error-event")
		default:
			verifAssert(false, "C10/unexpected-event-kind")
		}
	}
	verifReach("C10/R")
}

// C06 (d): a channel hands the node's keys and identity to its reader and writer
func verifHarness_C06_channel(version int, inKeyed int, outKeyed int) {
	sys, comp := verifNondetU8(), verifNondetU8()
	verifAssume(sys >= 1)
	n := verifBareNode(Version(version), sys, comp)
	if inKeyed == 1 {
		n.InKey, _ = verifKey()
	}
	if outKeyed == 1 {
		n.OutKey, _ = verifKey()
	}
	rwc := &verifRWC{}
	ch := &Channel{node: n, rwc: rwc}
	err := ch.initialize()
	if outKeyed == 1 && version == 1 {
		verifAssert(err != nil, "C06/d/key-with-v1-refused")
		verifReach("C06/d")
		return
	}
	verifAssert(err == nil, "C06/d/channel-init")
	verifAssert(ch.frameWriter.Reader.InKey == n.InKey, "C06/d/reader-gets-incoming-key")
	verifAssert(ch.frameWriter.Reader.DialectRW == n.dialectRW && ch.frameWriter.Writer.DialectRW == n.dialectRW, "C06/d/dialect-passed")
	verifAssert(ch.streamWriter.Key == n.OutKey, "C06/d/writer-gets-outgoing-key")
	verifAssert(ch.streamWriter.SystemID == sys && (ch.streamWriter.ComponentID == comp || (comp == 0 && ch.streamWriter.ComponentID == 1)), "C06/d/identity-passed")
	verifAssert(int(ch.streamWriter.Version) == version, "C06/d/version-passed")
	verifAssert(ch.streamWriter.FrameWriter == ch.frameWriter.Writer, "C06/d/one-writer-per-channel")
	verifReach("C06/d")
}

// C08 (F): after the application edits a received (decoded) message, FixFrame makes the frame valid again:
// the next hop accepts checksum and, with an outgoing key, signature, and decodes the edited message.
func verifHarness_C08_fix(version int, shape int, keyed int, strlen int) {
	n := verifBareNode(V2, 1, 1)
	var key *frame.V2Key
	// keyed 4 / 5: as 0 / 1 with the frame edited and fixed a second time
	if keyed == 1 || keyed == 2 || keyed == 3 || keyed == 5 {
		key, _ = verifKey()
		n.OutKey = key
	}
	msg, full, spec := frame.VerifMsg(shape, strlen) // the edited message: arbitrary field values
	if sm, ok := msg.(*frame.MessageVerifString); ok {
		// a NUL inside the edited string cuts it on the wire (canonical form, C04); keep this harness about FixFrame
		for i := 0; i < len(sm.Name); i++ {
			verifAssume(sm.Name[i] != 0)
		}
	}
	seq, sys, comp, compat := verifNondetU8(), verifNondetU8(), verifNondetU8(), verifNondetU8()
	stale := verifNondetU16()
	var fr frame.Frame
	if version == 1 {
		fr = &frame.V1Frame{SequenceNumber: seq, SystemID: sys, ComponentID: comp, Message: msg, Checksum: stale}
	} else {
		f2 := &frame.V2Frame{CompatibilityFlag: compat, SequenceNumber: seq, SystemID: sys, ComponentID: comp, Message: msg, Checksum: stale}
		if keyed == 2 {
			// the node has an outgoing key, the received frame is unsigned and stays so: the next hop holds no key
			key = nil
		}
		if keyed == 3 {
			// re-signing: a signed frame (any signature, e.g. made with another key) whose message is left as it
			// is, so that its checksum is already the right one; FixFrame still has to produce a valid signature
			f2.IncompatibilityFlag = 1
			f2.SignatureLinkID = verifNondetU8()
			f2.SignatureTimestamp = verifNondetU64()
			verifAssume(f2.SignatureTimestamp < 1<<48)
			f2.Signature = new(frame.V2Signature)
			copy(f2.Signature[:], verifNondetBytes(6))
			f2.Checksum = frame.VerifSpecChecksumV2(1, compat, seq, sys, comp, spec.ID(), frame.VerifTruncate(full), spec.CRCExtra())
		}
		// keyed 6: a signed frame arrives at a node WITHOUT an outgoing key: the fixed frame still has to be a frame
		// that can be written and that a next hop without a key accepts
		if keyed == 1 || keyed == 5 || keyed == 6 {
			f2.IncompatibilityFlag = 1
			f2.SignatureLinkID = verifNondetU8()
			f2.SignatureTimestamp = verifNondetU64()
			verifAssume(f2.SignatureTimestamp < 1<<48)
			f2.Signature = new(frame.V2Signature)
			copy(f2.Signature[:], verifNondetBytes(6))
		}
		fr = f2
	}
	verifAssert(n.FixFrame(fr) == nil, "C08/F/fix-ok")
	if keyed >= 4 {
		// a second stage edits the frame again (ids, sequence) after it was fixed once - the message is by now in
		// its encoded form - and asks for another fix
		seq, sys, comp = verifNondetU8(), verifNondetU8(), verifNondetU8()
		switch f := fr.(type) {
		case *frame.V1Frame:
			f.SequenceNumber, f.SystemID, f.ComponentID = seq, sys, comp
		case *frame.V2Frame:
			f.SequenceNumber, f.SystemID, f.ComponentID = seq, sys, comp
		}
		verifAssert(n.FixFrame(fr) == nil, "C08/F/second-fix-ok")
	}
	rec := &frame.VerifRecWriter{}
	w := &frame.Writer{ByteWriter: rec, DialectRW: n.dialectRW}
	verifAssert(w.Initialize() == nil, "C08/F/writer-init")
	verifAssert(w.Write(fr) == nil, "C08/F/forward-ok")
	r2 := &frame.Reader{ByteReader: frame.VerifChunkReader(rec.Buf(), nil), DialectRW: n.dialectRW, InKey: key}
	verifAssert(r2.Initialize() == nil, "C08/F/reader-init")
	got, err := r2.Read()
	verifAssert(err == nil, "C08/F/next-hop-accepts-fixed-frame")
	if err == nil {
		verifAssert(got.GetSequenceNumber() == seq && got.GetSystemID() == sys && got.GetComponentID() == comp, "C08/F/header-kept")
		// the next hop decodes the canonical form of the edited message: compare through the spec layout
		var want []byte
		if version == 1 {
			want = full[:spec.SizeNormal()]
		} else {
			want = frame.VerifTruncate(full)
		}
		mp := n.dialectRW.GetMessage(spec.ID())
		re := mp.Write(got.GetMessage(), version == 2)
		verifAssert(verifEqBytes(re.Payload, want), "C08/F/next-hop-decodes-edited-message")
		_, err2 := r2.Read()
		verifAssert(err2 == io.EOF, "C08/F/nothing-but-the-frame-is-forwarded")
	}
	verifReach("C08/F")
}
