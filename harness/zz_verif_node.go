package gomavlib

import (
	"context"
	"io"

	"github.com/bluenviron/gomavlib/v3/pkg/dialect"
	"github.com/bluenviron/gomavlib/v3/pkg/frame"
	"github.com/bluenviron/gomavlib/v3/pkg/message"
)

// transport for kernels: recording writer + chunked reader + close counter
type verifRWC struct {
	frame.VerifRecWriter
	rd     io.Reader
	closed int
}

func (t *verifRWC) Read(p []byte) (int, error) {
	if t.rd == nil {
		return 0, io.EOF
	}
	return t.rd.Read(p)
}

func (t *verifRWC) Close() error {
	t.closed++
	return nil
}

var verifHarnessDialect = &dialect.Dialect{
	Version: 3,
	Messages: []message.Message{
		&frame.MessageVerifScalars{},
		&frame.MessageVerifString{},
		&frame.MessageVerifExt{},
		&frame.MessageVerifEnumArr{},
		&frame.MessageVerifMessageBox{},
	},
}

// scripted endpoint for the provider loop
type verifEndpoint struct {
	one      bool
	script   []int // per provide() call: 0 = a connection, 1 = errTerminated
	calls    int
	closed   int
	provided []*verifRWC
}

func (e *verifEndpoint) Conf() EndpointConf      { return nil }
func (e *verifEndpoint) isEndpoint()             {}
func (e *verifEndpoint) close()                  { e.closed++ }
func (e *verifEndpoint) oneChannelAtAtime() bool { return e.one }
func (e *verifEndpoint) provide() (string, io.ReadWriteCloser, error) {
	i := e.calls
	e.calls++
	if i >= len(e.script) || e.script[i] == 1 {
		return "", nil, errTerminated
	}
	c := &verifRWC{}
	e.provided = append(e.provided, c)
	return "scripted", c, nil
}


type verifEndpointConf struct{ ep *verifEndpoint }

func (c verifEndpointConf) init(*Node) (Endpoint, error) { return c.ep, nil }

// a node initialised by the real Node.Initialize over a scripted endpoint that never provides a connection
// (the goroutines Initialize starts are only recorded by the executor)
func verifBareNode(version Version, sys, comp byte) *Node {
	n := &Node{Dialect: verifHarnessDialect, OutVersion: version, OutSystemID: sys, OutComponentID: comp,
		Endpoints: []EndpointConf{verifEndpointConf{&verifEndpoint{one: true}}}}
	if err := n.Initialize(); err != nil {
		panic(err)
	}
	return n
}

func verifCtx() (context.Context, func()) {
	ctx, cancel := context.WithCancel(context.Background())
	return ctx, cancel
}

func verifBareChannel(n *Node) *Channel {
	ch := &Channel{node: n}
	ch.ctx, ch.ctxCancel = context.WithCancel(context.Background())
	ch.chWrite = make(chan interface{}, writeBufferSize)
	ch.done = make(chan struct{})
	return ch
}

// number of items now at the tail of the queue (beyond the pre-existing fill), and the first of them
func verifDrainNew(ch *Channel) (int, interface{}) {
	cnt := 0
	var first interface{}
	for {
		select {
		case x := <-ch.chWrite:
			if cnt == 0 {
				first = x
			}
			cnt++
			continue
		default:
		}
		break
	}
	return cnt, first
}

// K1 (C11) + C13: one request handed to the node loop; channels c0..c2 are members of the node's channel set
// according to `member` (bit i), c3 is foreign; every queue has an arbitrary fill level 0..64.
// kind 0: write to all, 1: write to `target`, 2: write to all except `target`.
func verifHarness_C11_dispatch(kind int, member int, target int) {
	n := verifBareNode(V2, 1, 1)
	var chs [4]*Channel
	var fill [4]int
	for i := 0; i < 4; i++ {
		chs[i] = verifBareChannel(n)
		fill[i] = verifNondetInt()
		verifAssume(fill[i] >= 0 && fill[i] <= writeBufferSize)
		verifChanSymFill(chs[i].chWrite, fill[i])
		if i < 3 && member&(1<<uint(i)) != 0 {
			n.channels[chs[i]] = struct{}{}
		}
	}
	item := &message.MessageRaw{ID: 7, Payload: []byte{1}}
	var tch *Channel // target 4: no channel at all (a routing table miss)
	if target < 4 {
		tch = chs[target]
	}
	switch kind {
	case 0:
		verifChanPush(n.chWriteAll, interface{}(item))
	case 1:
		verifChanPush(n.chWriteTo, writeToReq{tch, item})
	default:
		verifChanPush(n.chWriteExcept, writeExceptReq{tch, item})
	}
	blocked := verifRunUntilBlocked(func() { n.run() })
	verifAssert(blocked, "C11/K1/loop-waits-for-next-request")
	verifAssert(len(n.chWriteAll) == 0 && len(n.chWriteTo) == 0 && len(n.chWriteExcept) == 0, "C13/K1/request-consumed-without-stalling")
	for i := 0; i < 4; i++ {
		isMember := i < 3 && member&(1<<uint(i)) != 0
		var addressed bool
		switch kind {
		case 0:
			addressed = isMember
		case 1:
			addressed = isMember && target == i
		default:
			addressed = isMember && target != i
		}
		got, first := verifDrainNew(chs[i])
		if addressed {
			// delivered exactly once unless this channel's backlog is full (then dropped for this channel only)
			verifAssert(verifIff(got == 1, fill[i] < writeBufferSize), "C11/K1/addressed-channel-gets-item-once-unless-full")
			verifAssert(got <= 1, "C11/K1/never-twice")
			if got == 1 {
				verifAssert(first == interface{}(item), "C11/K1/item-identity")
			}
		} else {
			verifAssert(got == 0, "C11/K1/other-channels-untouched")
		}
		// serving a request does not change which channels are open: a full (or skipped) channel stays a member
		_, still := n.channels[chs[i]]
		verifAssert(still == isMember, "C11/K1/membership-unchanged-by-a-write")
	}
	verifReach("C11/K1")
}

// K1c: one of the member channels is closing (its context is cancelled, its close event not yet consumed): a write to
// all / all-but-one still reaches every other member exactly once, whatever the iteration order of the channel set.
func verifHarness_C11_dispatch_closing(kind int, closing int) {
	n := verifBareNode(V2, 1, 1)
	var chs [3]*Channel
	for i := 0; i < 3; i++ {
		chs[i] = verifBareChannel(n)
		n.channels[chs[i]] = struct{}{}
	}
	chs[closing].ctxCancel()
	item := &message.MessageRaw{ID: 7, Payload: []byte{1}}
	if kind == 0 {
		verifChanPush(n.chWriteAll, interface{}(item))
	} else {
		verifChanPush(n.chWriteExcept, writeExceptReq{nil, item})
	}
	blocked := verifRunUntilBlocked(func() { n.run() })
	verifAssert(blocked, "C11/K1c/loop-waits-for-next-request")
	for i := 0; i < 3; i++ {
		if i == closing {
			continue
		}
		got, first := verifDrainNew(chs[i])
		verifAssert(got == 1 && first == interface{}(item), "C11/K1c/healthy-members-served-whatever-a-closing-one-does")
	}
	verifReach("C11/K1c")
}

// K2b: a full backlog keeps what it holds: 64 distinct items queued (nothing drains them), a 65th is written: the queue
// still holds the first 64, in order (the newcomer is the one discarded), and the call does not block.
func verifHarness_C13_full_queue_keeps_backlog() {
	n := verifBareNode(V2, 1, 1)
	rc := &Channel{node: n, rwc: &verifRWC{}}
	verifAssert(rc.initialize() == nil, "C13/K2b/channel-init")
	items := make([]*message.MessageRaw, 65)
	for i := range items {
		items[i] = &message.MessageRaw{ID: 7, Payload: []byte{byte(i)}}
	}
	for i := 0; i < 64; i++ {
		rc.write(items[i])
	}
	verifAssert(len(rc.chWrite) == 64, "C13/K2b/sixty-four-items-queued")
	blocked := verifRunUntilBlocked(func() { rc.write(items[64]) })
	verifAssert(!blocked, "C13/K2b/enqueue-never-blocks")
	verifAssert(len(rc.chWrite) == 64, "C13/K2b/still-sixty-four")
	for i := 0; i < 64 && len(rc.chWrite) > 0; i++ {
		it := <-rc.chWrite
		verifAssert(it == interface{}(items[i]), "C13/K2b/backlog-kept-in-order-newcomer-discarded")
	}
	verifReach("C13/K2b")
}

// K2c (C13): after an overflow the bound is still "64 queued items", not less: the writer takes drained items off a
// backlog that has overflowed, and every later item that finds room is queued again (at the tail), for each number
// of drained items 1..64.
func verifHarness_C13_overflow_then_room(drained int) {
	n := verifBareNode(V2, 1, 1)
	rc := &Channel{node: n, rwc: &verifRWC{}}
	verifAssert(rc.initialize() == nil, "C13/K2c/channel-init")
	for i := 0; i < 67; i++ {
		rc.write(&message.MessageRaw{ID: 7, Payload: []byte{byte(i)}})
	}
	verifAssert(len(rc.chWrite) == 64, "C13/K2c/sixty-four-items-queued")
	for i := 0; i < drained; i++ {
		<-rc.chWrite
	}
	late := make([]*message.MessageRaw, drained+1)
	for i := range late {
		late[i] = &message.MessageRaw{ID: 8, Payload: []byte{byte(i)}}
		blocked := verifRunUntilBlocked(func() { rc.write(late[i]) })
		verifAssert(!blocked, "C13/K2c/enqueue-never-blocks")
	}
	verifAssert(len(rc.chWrite) == 64, "C13/K2c/items-with-room-are-queued-after-an-overflow")
	for i := 0; i < 64-drained; i++ {
		<-rc.chWrite
	}
	for i := 0; i < drained; i++ {
		it := <-rc.chWrite
		verifAssert(it == interface{}(late[i]), "C13/K2c/late-items-at-tail-in-order")
	}
	verifReach("C13/K2c")
}

// K2 (C11/C13): enqueue on one channel with an arbitrary fill level: appended at the tail when below 64,
// dropped without blocking when full; a cancelled channel never blocks either.
func verifHarness_C13_enqueue(cancelled int) {
	n := verifBareNode(V2, 1, 1)
	// the queue of a channel set up by the real Channel.initialize holds 64 items (the bound the property names)
	rc := &Channel{node: n, rwc: &verifRWC{}}
	verifAssert(rc.initialize() == nil, "C13/K2/channel-init")
	verifAssert(cap(rc.chWrite) == 64, "C13/K2/queue-bound-is-64")
	ch := verifBareChannel(n)
	ch.chWrite = make(chan interface{}, cap(rc.chWrite))
	fill := verifNondetInt()
	verifAssume(fill >= 0 && fill <= 64)
	verifChanSymFill(ch.chWrite, fill)
	if cancelled == 1 {
		ch.ctxCancel()
	}
	item := &message.MessageRaw{ID: 7, Payload: []byte{1}}
	blocked := verifRunUntilBlocked(func() { ch.write(item) })
	verifAssert(!blocked, "C13/K2/enqueue-never-blocks")
	got, first := verifDrainNew(ch)
	if cancelled == 0 {
		verifAssert(verifIff(got == 1, fill < 64), "C13/K2/queued-iff-backlog-below-64")
	}
	verifAssert(got <= 1, "C13/K2/at-most-once")
	if got == 1 {
		verifAssert(first == interface{}(item), "C13/K2/item-at-tail")
	}
	verifReach("C13/K2")
}
