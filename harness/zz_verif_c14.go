package gomavlib

import (
	"errors"
	"io"
	"net"
	"time"

	"github.com/bluenviron/gomavlib/v3/pkg/timednetconn"
)

var verifErrOpen = errors.New("verif: open failed")

// T2 (serial): connect outcomes scripted by `fails` (number of failed attempts before a success, 0..3);
// second = 1: this is not the endpoint's first provide() (a channel has died before).
func verifHarness_C14_serial(fails int, second int) {
	defer verifPatchTimers()()
	attempts := 0
	rwc := &verifRWC{}
	old := serialOpenFunc
	defer func() { serialOpenFunc = old }()
	serialOpenFunc = func(device string, baud int) (io.ReadWriteCloser, error) {
		attempts++
		if attempts <= fails {
			return nil, verifErrOpen
		}
		return rwc, nil
	}
	n := verifBareNode(V2, 1, 1)
	e := &endpointSerial{node: n, conf: EndpointSerial{Device: "x", Baud: 57600}}
	e.ctx, e.ctxCancel = verifCtx()
	e.first = second == 1
	var label string
	var conn io.ReadWriteCloser
	var err error
	blocked := verifRunUntilBlocked(func() { label, conn, err = e.provide() })
	verifAssert(!blocked, "C14/T2/keeps-retrying-after-any-number-of-failures")
	if blocked {
		return
	}
	verifAssert(err == nil && conn == io.ReadWriteCloser(rwc), "C14/T2/returns-the-connection-once-an-attempt-succeeds")
	verifAssert(label == "serial", "C14/T2/label")
	verifAssert(attempts == fails+1, "C14/T2/one-attempt-per-failure-plus-one")
	// exactly one reconnect delay before every attempt except the endpoint's very first
	verifAssert(verifTimerCount() == fails+second, "C14/T2/one-reconnect-delay-before-each-later-attempt")
	for i := 0; i < verifTimerCount(); i++ {
		verifAssert(verifTimerDuration(i) == reconnectPeriod, "C14/T2/delay-is-the-reconnect-period")
	}
	verifAssert(e.first, "C14/T2/first-attempt-consumed")
	verifAssert(e.oneChannelAtAtime(), "C14/T2/client-endpoints-one-channel-at-a-time")
	verifReach("C14/T2s")
}

// T2 (TCP/UDP client): same with the dialer's outcome scripted; the connection is wrapped with idle/write timeouts.
func verifHarness_C14_client(udp int, fails int, second int) {
	defer verifPatchTimers()()
	attempts := 0
	fake := &verifNetConn{}
	verifSetDialer(func() (net.Conn, error) {
		attempts++
		if attempts > fails+1 {
			// the peer is back since attempt fails+1: a correct client is connected by now
			verifAssert(false, "C14/T2/connects-as-soon-as-the-peer-is-reachable-again")
			verifStop()
		}
		if attempts <= fails {
			return nil, verifErrOpen
		}
		return fake, nil
	})
	n := verifBareNode(V2, 1, 1)
	idle, wto := verifNondetI64(), verifNondetI64()
	// connect timeout 10 s, reconnect period 2 s: with 5 or more failed attempts the waits add up to more than one
	// connect timeout (every attempt must get a fresh one)
	n.IdleTimeout, n.WriteTimeout, n.ReadTimeout = time.Duration(idle), time.Duration(wto), 10*time.Second
	var conf endpointClientConf = EndpointTCPClient{"1.2.3.4:5600"}
	if udp == 1 {
		conf = EndpointUDPClient{"1.2.3.4:5600"}
	}
	e := &endpointClient{node: n, conf: conf}
	e.ctx, e.ctxCancel = verifCtx()
	e.first = second == 1
	var conn io.ReadWriteCloser
	var err error
	blocked := verifRunUntilBlocked(func() { _, conn, err = e.provide() })
	verifAssert(!blocked, "C14/T2/keeps-retrying-after-any-number-of-failures")
	if blocked {
		return
	}
	verifAssert(err == nil && conn != nil, "C14/T2/returns-the-connection-once-an-attempt-succeeds")
	verifAssert(attempts == fails+1, "C14/T2/one-attempt-per-failure-plus-one")
	verifAssert(verifTimerCount() == fails+second, "C14/T2/one-reconnect-delay-before-each-later-attempt")
	for i := 0; i < verifTimerCount(); i++ {
		verifAssert(verifTimerDuration(i) == reconnectPeriod, "C14/T2/delay-is-the-reconnect-period")
	}
	rt, wt, wrapped, ok := timednetconn.VerifTimeouts(conn)
	verifAssert(ok && wrapped == net.Conn(fake), "C14/T2/connection-wrapped-with-deadlines")
	verifAssert(rt == time.Duration(idle) && wt == time.Duration(wto), "C14/T2/wrapped-with-idle-and-write-timeout")
	verifAssert(e.oneChannelAtAtime(), "C14/T2/client-endpoints-one-channel-at-a-time")
	verifReach("C14/T2c")
}

// T2 (terminated while backing off): with the endpoint closed, provide() on a never-connecting endpoint
// returns errTerminated or keeps retrying, never anything else, and never hands out a connection.
func verifHarness_C14_terminated() {
	defer verifPatchTimers()()
	old := serialOpenFunc
	defer func() { serialOpenFunc = old }()
	attempts := 0
	serialOpenFunc = func(device string, baud int) (io.ReadWriteCloser, error) {
		attempts++
		if attempts > 3 {
			verifStop() // bound the exploration: three retries are enough
		}
		return nil, verifErrOpen
	}
	n := verifBareNode(V2, 1, 1)
	e := &endpointSerial{node: n, conf: EndpointSerial{Device: "x", Baud: 57600}}
	e.ctx, e.ctxCancel = verifCtx()
	e.close()
	_, conn, err := e.provide()
	verifAssert(err == errTerminated && conn == nil, "C14/T2/closed-endpoint-reports-terminated")
	verifReach("C14/T2t")
}

// T2 (termination during the reconnect back-off, one schedule): the device / peer is gone, every attempt fails and the
// reconnect timer has not elapsed; closing the endpoint makes provide() return errTerminated.
// kind 0: serial, 1: TCP client, 2: UDP client; second = 1: not the endpoint's first provide().
func verifHarness_C14_backoff_terminated(kind int, second int) {
	old := serialOpenFunc
	defer func() { serialOpenFunc = old }()
	serialOpenFunc = func(device string, baud int) (io.ReadWriteCloser, error) { return nil, verifErrOpen }
	verifSetDialer(func() (net.Conn, error) { return nil, verifErrOpen })
	n := verifBareNode(V2, 1, 1)
	n.ReadTimeout = 10 * time.Second
	var provide func() (string, io.ReadWriteCloser, error)
	var closeFn func()
	if kind == 0 {
		e := &endpointSerial{node: n, conf: EndpointSerial{Device: "x", Baud: 57600}}
		e.ctx, e.ctxCancel = verifCtx()
		e.first = second == 1
		provide, closeFn = e.provide, e.close
	} else {
		var conf endpointClientConf = EndpointTCPClient{"1.2.3.4:5600"}
		if kind == 2 {
			conf = EndpointUDPClient{"1.2.3.4:5600"}
		}
		e := &endpointClient{node: n, conf: conf}
		e.ctx, e.ctxCancel = verifCtx()
		e.first = second == 1
		provide, closeFn = e.provide, e.close
	}
	verifTimersPending(true)
	done := false
	var conn io.ReadWriteCloser
	var perr error
	blocked := verifRunGoroutines(func() { _, conn, perr = provide(); done = true })
	verifAssert(blocked && !done, "C14/T2b/waits-for-the-reconnect-delay")
	closeFn()
	blocked = verifRunGoroutines(nil)
	verifAssert(!blocked && done, "C14/T2b/close-ends-the-back-off")
	if done {
		verifAssert(perr == errTerminated && conn == nil, "C14/T2b/closed-endpoint-reports-terminated")
	}
	verifReach("C14/T2b")
}

// T2c (termination during a connection attempt, one schedule): a TCP / UDP client whose connection attempt gets no answer
// (the peer drops the SYN): closing the endpoint ends provide() with errTerminated, without waiting for the attempt to
// give up by itself.
func verifHarness_C14_connect_terminated(udp int, second int) {
	dials := 0
	verifSetDialer(func() (net.Conn, error) { dials++; return nil, verifErrOpen })
	n := verifBareNode(V2, 1, 1)
	n.ReadTimeout = 30 * time.Second
	var conf endpointClientConf = EndpointTCPClient{"1.2.3.4:5600"}
	if udp == 1 {
		conf = EndpointUDPClient{"1.2.3.4:5600"}
	}
	e := &endpointClient{node: n, conf: conf}
	e.ctx, e.ctxCancel = verifCtx()
	e.first = second == 1
	verifDialPending(true)
	verifTimersPending(true) // no reconnect delay elapses meanwhile
	done := false
	var conn io.ReadWriteCloser
	var perr error
	blocked := verifRunGoroutines(func() { _, conn, perr = e.provide(); done = true })
	verifAssert(blocked && !done, "C14/T2c/attempt-in-flight")
	e.close()
	blocked = verifRunGoroutines(nil)
	verifAssert(!blocked && done, "C14/T2c/close-ends-the-connection-attempt")
	if done {
		verifAssert(perr == errTerminated && conn == nil, "C14/T2c/closed-endpoint-reports-terminated")
	}
	verifReach("C14/T2c")
}

// scripted listener for the server endpoint
type verifListener struct {
	conns  []net.Conn
	idx    int
	closed int
}

func (l *verifListener) Accept() (net.Conn, error) {
	if l.idx < len(l.conns) {
		c := l.conns[l.idx]
		l.idx++
		return c, nil
	}
	return nil, verifErrOpen
}
func (l *verifListener) Close() error   { l.closed++; return nil }
func (l *verifListener) Addr() net.Addr { return nil }

// T4 (server endpoints): every accepted peer gets its own connection, wrapped with the idle timeout on the read
// side and the write timeout on the write side; the endpoint keeps accepting; an accept error waits for termination.
func verifHarness_C14_server(udp int) {
	n := verifBareNode(V2, 1, 1)
	idle, wto, rto := verifNondetI64(), verifNondetI64(), verifNondetI64()
	n.IdleTimeout, n.WriteTimeout, n.ReadTimeout = time.Duration(idle), time.Duration(wto), time.Duration(rto)
	c1, c2 := &verifNetConn{}, &verifNetConn{}
	l := &verifListener{conns: []net.Conn{c1, c2}}
	var conf endpointServerConf = EndpointTCPServer{"0.0.0.0:5600"}
	if udp == 1 {
		conf = EndpointUDPServer{"0.0.0.0:5600"}
	}
	e := &endpointServer{node: n, conf: conf, listener: l, terminate: make(chan struct{})}
	verifAssert(!e.oneChannelAtAtime(), "C14/T4/server-endpoints-serve-several-peers")
	for i, want := range []net.Conn{c1, c2} {
		_, conn, err := e.provide()
		verifAssert(err == nil && conn != nil, "C14/T4/each-accepted-peer-gets-a-connection")
		rt, wt, wrapped, ok := timednetconn.VerifTimeouts(conn)
		verifAssert(ok && wrapped == want && l.idx == i+1, "C14/T4/connection-wrapped-with-deadlines")
		verifAssert(rt == time.Duration(idle), "C14/T4/read-side-bounded-by-the-idle-timeout")
		verifAssert(wt == time.Duration(wto), "C14/T4/write-side-bounded-by-the-write-timeout")
	}
	var perr error
	blocked := verifRunUntilBlocked(func() { _, _, perr = e.provide() })
	verifAssert(blocked, "C14/T4/accept-error-waits-for-termination")
	e.close()
	verifAssert(l.closed == 1, "C14/T4/close-releases-the-listener")
	_, _, perr = e.provide()
	verifAssert(perr == errTerminated, "C14/T4/terminated-endpoint-reports-it")
	verifReach("C14/T4")
}

type verifNetConn struct{ verifRWC }

func (c *verifNetConn) LocalAddr() net.Addr                { return nil }
func (c *verifNetConn) RemoteAddr() net.Addr               { return nil }
func (c *verifNetConn) SetDeadline(t time.Time) error      { return nil }
func (c *verifNetConn) SetReadDeadline(t time.Time) error  { return nil }
func (c *verifNetConn) SetWriteDeadline(t time.Time) error { return nil }

// T3: provider loop. one = 1: a one-channel-at-a-time endpoint; closeDone = 1: each channel handed to the node
// is immediately reported done (its close event was emitted).
func verifHarness_C14_provider(one int, closeDone int) {
	n := verifBareNode(V2, 1, 1)
	ep := &verifEndpoint{one: one == 1, script: []int{0, 0, 0, 1}}
	cp := &channelProvider{node: n, endpoint: ep}
	verifAssert(cp.initialize() == nil, "C14/T3/init")
	handed := 0
	maxOpen := 0
	open := 0
	verifChanOnSend(n.chNewChannel, func(ch *Channel) {
		handed++
		open++
		if open > maxOpen {
			maxOpen = open
		}
		verifAssert(ch.node == n && ch.endpoint == Endpoint(ep) && ch.rwc == io.ReadWriteCloser(ep.provided[len(ep.provided)-1]), "C14/T3/channel-wraps-the-provided-connection")
		if closeDone == 1 {
			close(ch.done)
			open--
		}
	})
	blocked := verifRunUntilBlocked(func() { cp.run() })
	if one == 1 && closeDone == 0 {
		verifAssert(blocked, "C14/T3/waits-for-the-channel-to-close-before-providing-again")
		verifAssert(handed == 1 && ep.calls == 1, "C14/T3/never-two-channels-at-once")
	} else {
		verifAssert(!blocked, "C14/T3/loop-ends-when-the-endpoint-terminates")
		verifAssert(handed == 3 && ep.calls == 4, "C14/T3/one-channel-per-provided-connection")
	}
	if one == 1 {
		verifAssert(maxOpen <= 1, "C14/T3/at-most-one-open-channel")
	}
	verifReach("C14/T3")
}

// recording net.PacketConn for the UDP broadcast endpoint
type verifPacketConn struct {
	events    []int // 0 ReadFrom, 1 SetWriteDeadline, 2 WriteTo, 3 SetReadDeadline / SetDeadline, 4 Close
	deadlines []time.Time
	dst       net.Addr
	n         int
	err       error
	failSet   bool
	closed    int
}

func (c *verifPacketConn) ReadFrom(p []byte) (int, net.Addr, error) {
	c.events = append(c.events, 0)
	if c.closed > 0 {
		return 0, nil, net.ErrClosed
	}
	return c.n, nil, c.err
}

func (c *verifPacketConn) WriteTo(p []byte, addr net.Addr) (int, error) {
	c.events = append(c.events, 2)
	c.dst = addr
	return c.n, c.err
}
func (c *verifPacketConn) Close() error        { c.events = append(c.events, 4); c.closed++; return nil }
func (c *verifPacketConn) LocalAddr() net.Addr { return nil }
func (c *verifPacketConn) SetDeadline(t time.Time) error {
	c.events = append(c.events, 3)
	return nil
}

func (c *verifPacketConn) SetReadDeadline(t time.Time) error {
	c.events = append(c.events, 3)
	return nil
}

func (c *verifPacketConn) SetWriteDeadline(t time.Time) error {
	c.events = append(c.events, 1)
	c.deadlines = append(c.deadlines, t)
	if c.failSet {
		return verifErrOpen
	}
	return nil
}

// T5 (UDP broadcast endpoint): the connection handed to the channel sends every write to the broadcast address under
// a deadline armed for that call from the node's write timeout, reads without any deadline (silence is normal on a
// broadcast link), reports the outcome of the underlying call unchanged, and the endpoint serves one channel at a time.
// kind 0: Read, 1: Write, 2: Write with a failing SetWriteDeadline, 3: a channel ends, the next one is served by the
// same socket, the endpoint is closed. errKind 0: no error, 1: an error.
func verifHarness_C14_broadcast(kind int, errKind int) {
	defer verifPatchClock()()
	n := verifBareNode(V2, 1, 1)
	wt := verifNondetI64()
	verifAssume(wt >= 0 && wt < 1<<50)
	n.WriteTimeout = time.Duration(wt)
	cnt := verifNondetRange(0, 8)
	var want error
	if errKind == 1 {
		want = verifErrOpen
	}
	pc := &verifPacketConn{n: cnt, err: want, failSet: kind == 2}
	baddr := &net.UDPAddr{IP: net.IP{192, 168, 5, 255}, Port: 5600}
	e := &endpointUDPBroadcast{node: n, pc: pc, broadcastAddr: baddr}
	verifAssert(e.oneChannelAtAtime(), "C14/T5/one-channel-at-a-time")
	_, conn, perr := e.provide()
	verifAssert(perr == nil && conn != nil, "C14/T5/provides-a-connection")
	buf := make([]byte, 8)
	if kind == 3 {
		// the socket belongs to the endpoint and outlives its channels: after a channel ended (its connection was
		// closed, as Channel.run does), the next channel still reads from a working socket; closing the endpoint
		// releases the socket
		got, err := conn.Read(buf)
		verifAssert(got == cnt && err == want, "C14/T5/read-outcome-unchanged")
		conn.Close() //nolint:errcheck
		_, conn2, perr2 := e.provide()
		verifAssert(perr2 == nil && conn2 != nil, "C14/T5/provides-a-connection-again")
		got, err = conn2.Read(buf)
		verifAssert(got == cnt && err == want, "C14/T5/next-channel-reads-from-a-working-socket")
		e.close()
		verifAssert(pc.closed >= 1, "C14/T5/closing-the-endpoint-releases-the-socket")
		verifReach("C14/T5")
		return
	}
	if kind == 0 {
		got, err := conn.Read(buf)
		verifAssert(len(pc.events) == 1 && pc.events[0] == 0, "C14/T5/read-without-deadline")
		verifAssert(got == cnt && err == want, "C14/T5/read-outcome-unchanged")
	} else {
		got, err := conn.Write(buf)
		now := verifClockLast()
		verifAssert(verifClockReadings() == 1, "C14/T5/one-clock-reading-per-write")
		if kind == 2 {
			verifAssert(err == verifErrOpen && got == 0, "C14/T5/deadline-error-reported")
			verifAssert(len(pc.events) == 1 && pc.events[0] == 1, "C14/T5/deadline-error-short-circuits-the-write")
		} else {
			verifAssert(len(pc.events) == 2 && pc.events[0] == 1 && pc.events[1] == 2, "C14/T5/write-preceded-by-its-deadline")
			verifAssert(pc.deadlines[0].Equal(verifClockAt(now).Add(time.Duration(wt))), "C14/T5/write-deadline-is-now-plus-write-timeout")
			verifAssert(pc.dst == net.Addr(baddr), "C14/T5/written-to-the-broadcast-address")
			verifAssert(got == cnt && err == want, "C14/T5/write-outcome-unchanged")
		}
	}
	verifReach("C14/T5")
}
