package gomavlib

import (
	"time"

	"github.com/bluenviron/gomavlib/v3/pkg/frame"
)

// C09, node level: what the node refuses at initialization and the identity it ends up with, through
// Node.Initialize (viaConf 0) and through the deprecated NewNode(NodeConf) constructor (viaConf 1).
// kind 0: any valid configuration (version 1 or 2, system id >= 1, any component id, key only with version 2);
// 1: version missing; 2: system id zero; 3: an outgoing key with version 1.
func verifHarness_C09_node_init(kind int, viaConf int) {
	sys, comp := verifNondetU8(), verifNondetU8()
	version := Version(verifNondetRange(1, 2))
	var key *frame.V2Key
	if verifNondetBool() {
		key = new(frame.V2Key)
		copy(key[:], verifNondetBytes(32))
	}
	inKey := new(frame.V2Key)
	switch kind {
	case 0:
		verifAssume(sys >= 1)
		if version == V1 {
			key = nil
		}
	case 1:
		version = 0
	case 2:
		sys = 0
	case 3:
		version = V1
		key = new(frame.V2Key)
	}
	hbPeriod, freq := verifNondetI64(), int(verifNondetU8())
	verifAssume(hbPeriod > 0)
	rt, wt, it := verifNondetI64(), verifNondetI64(), verifNondetI64()
	verifAssume(rt > 0 && wt > 0 && it > 0)
	sysType, apType := int(verifNondetU8()), int(verifNondetU8())
	verifAssume(freq > 0 && sysType > 0)
	hbDisable, srEnable := verifNondetBool(), verifNondetBool()
	eps := []EndpointConf{verifEndpointConf{&verifEndpoint{one: true}}}
	var n *Node
	var err error
	if viaConf == 1 {
		n, err = NewNode(NodeConf{Endpoints: eps, Dialect: verifHarnessDialect, InKey: inKey, OutVersion: version,
			OutSystemID: sys, OutComponentID: comp, OutKey: key, HeartbeatDisable: hbDisable,
			HeartbeatPeriod: time.Duration(hbPeriod), HeartbeatSystemType: sysType, HeartbeatAutopilotType: apType,
			StreamRequestEnable: srEnable, StreamRequestFrequency: freq, ReadTimeout: time.Duration(rt),
			WriteTimeout: time.Duration(wt), IdleTimeout: time.Duration(it)})
	} else {
		n = &Node{Endpoints: eps, Dialect: verifHarnessDialect, InKey: inKey, OutVersion: version,
			OutSystemID: sys, OutComponentID: comp, OutKey: key, HeartbeatDisable: hbDisable,
			HeartbeatPeriod: time.Duration(hbPeriod), HeartbeatSystemType: sysType, HeartbeatAutopilotType: apType,
			StreamRequestEnable: srEnable, StreamRequestFrequency: freq, ReadTimeout: time.Duration(rt),
			WriteTimeout: time.Duration(wt), IdleTimeout: time.Duration(it)}
		err = n.Initialize()
	}
	if kind != 0 {
		verifAssert(err != nil, "C09/N/invalid-configuration-refused-at-initialization")
		verifReach("C09/N")
		return
	}
	verifAssert(err == nil, "C09/N/valid-configuration-accepted")
	if err != nil {
		return
	}
	wantComp := comp
	if comp == 0 {
		wantComp = 1
	}
	verifAssert(n.OutVersion == version && n.OutSystemID == sys, "C09/N/configured-version-and-system-id")
	verifAssert(n.OutComponentID == wantComp, "C09/N/configured-component-id-or-1-when-unset")
	verifAssert(n.OutKey == key && n.InKey == inKey, "C09/N/configured-keys")
	verifAssert(n.Dialect == verifHarnessDialect && len(n.Endpoints) == 1, "C09/N/configured-dialect-and-endpoints")
	verifAssert(n.HeartbeatDisable == hbDisable && n.HeartbeatPeriod == time.Duration(hbPeriod) &&
		n.HeartbeatSystemType == sysType && n.HeartbeatAutopilotType == apType, "C09/N/configured-heartbeat")
	verifAssert(n.StreamRequestEnable == srEnable && n.StreamRequestFrequency == freq, "C09/N/configured-stream-requests")
	verifAssert(n.ReadTimeout == time.Duration(rt) && n.WriteTimeout == time.Duration(wt) && n.IdleTimeout == time.Duration(it),
		"C09/N/configured-timeouts")
	// the identity a channel's stream writer is created with is the node's
	ch := &Channel{node: n, rwc: &verifRWC{}}
	verifAssert(ch.initialize() == nil, "C09/N/channel-init")
	verifAssert(ch.streamWriter.SystemID == sys && ch.streamWriter.ComponentID == wantComp, "C09/N/link-writer-has-the-node-identity")
	verifAssert(int(ch.streamWriter.Version) == int(version) && ch.streamWriter.Key == key, "C09/N/link-writer-has-the-node-version-and-key")
	verifReach("C09/N")
}
