package tlog

import (
	"io"
	"time"

	"github.com/bluenviron/gomavlib/v3/pkg/frame"
	"github.com/bluenviron/gomavlib/v3/pkg/message"
)

func verifBE64dec(b []byte) uint64 {
	return uint64(b[0])<<56 | uint64(b[1])<<48 | uint64(b[2])<<40 | uint64(b[3])<<32 |
		uint64(b[4])<<24 | uint64(b[5])<<16 | uint64(b[6])<<8 | uint64(b[7])
}

func verifBE64(v uint64) []byte {
	return []byte{byte(v >> 56), byte(v >> 48), byte(v >> 40), byte(v >> 32), byte(v >> 24), byte(v >> 16), byte(v >> 8), byte(v)}
}

// arbitrary frame of the given kind (0: v1, 1: v2 unsigned, 2: v2 signed) with an n-byte raw payload, and its spec bytes
func verifFrame(kind int, n int) (frame.Frame, []byte) {
	seq, sys, comp := verifNondetU8(), verifNondetU8(), verifNondetU8()
	id := verifNondetU32()
	ck := verifNondetU16()
	payload := verifNondetBytes(n)
	keep := make([]byte, n)
	copy(keep, payload)
	if kind == 0 {
		verifAssume(id <= 0xFF)
		return &frame.V1Frame{SequenceNumber: seq, SystemID: sys, ComponentID: comp, Checksum: ck,
			Message: &message.MessageRaw{ID: id, Payload: payload}}, frame.VerifSpecV1(seq, sys, comp, byte(id), keep, ck)
	}
	verifAssume(id < 1<<24)
	compat := verifNondetU8()
	fr := &frame.V2Frame{CompatibilityFlag: compat, SequenceNumber: seq, SystemID: sys, ComponentID: comp, Checksum: ck,
		Message: &message.MessageRaw{ID: id, Payload: payload}}
	if kind == 1 {
		return fr, frame.VerifSpecV2(0, compat, seq, sys, comp, id, keep, ck, false, 0, 0, nil)
	}
	link := verifNondetU8()
	ts := verifNondetU64()
	verifAssume(ts < 1<<48)
	sigb := verifNondetBytes(6)
	sig := new(frame.V2Signature)
	copy(sig[:], sigb)
	fr.IncompatibilityFlag = 1
	fr.SignatureLinkID = link
	fr.SignatureTimestamp = ts
	fr.Signature = sig
	return fr, frame.VerifSpecV2(1, compat, seq, sys, comp, id, keep, ck, true, link, ts, sigb)
}

// W: k entries; the file is exactly the concatenation of BE64(unix microseconds) and the spec frame bytes,
// and reading it back returns k entries with equal frames, then an error.
func verifHarness_C20_write(k int, n int, cut int) {
	rec := &frame.VerifRecWriter{}
	w := &Writer{ByteWriter: rec}
	verifAssert(w.Initialize() == nil, "C20/W/init")
	wires := make([][]byte, k)
	uss := make([]uint64, k)
	for i := 0; i < k; i++ {
		sec := verifNondetI64()
		nsec := verifNondetI64()
		verifAssume(sec > -(1<<42) && sec < 1<<42)
		verifAssume(nsec >= 0 && nsec < 1000000000)
		// helper lemma for the solver (proved, then available to later queries): nsec fits the 30-bit field of time.Time
		verifAssert(nsec&0x3FFFFFFF == nsec, "C20/W/lemma-nsec-fits-30-bits")
		fr, wire := verifFrame(verifNondetRange(0, 2), n)
		wires[i] = wire
		err := w.Write(&Entry{Time: time.Unix(sec, nsec), Frame: fr})
		verifAssert(err == nil, "C20/W/write-ok")
		uss[i] = uint64(sec*1000000 + nsec/1000)
	}
	// the file is, per entry, the 8-byte big-endian microsecond timestamp followed by the spec frame bytes
	// (the timestamp is compared as the 64-bit value its eight bytes spell, most significant first)
	file := rec.Buf()
	pos := 0
	for i := 0; i < k; i++ {
		verifAssert(len(file) >= pos+8+len(wires[i]), "C20/W/file-length")
		verifAssert(verifBE64dec(file[pos:pos+8]) == uss[i], "C20/W/file-timestamp-be64-micros")
		verifAssert(verifEqBytes(file[pos+8:pos+8+len(wires[i])], wires[i]), "C20/W/file-frame-bytes")
		pos += 8 + len(wires[i])
	}
	verifAssert(len(file) == pos, "C20/W/file-no-extra-bytes")
	verifObserveBytes("C20/W/file", rec.Buf())
	var chunks []int
	if cut > 0 {
		chunks = []int{cut}
	}
	r := &Reader{ByteReader: frame.VerifChunkReader(rec.Buf(), chunks)}
	verifAssert(r.Initialize() == nil, "C20/W/reader-init")
	// the entries are collected first and compared afterwards, as a caller loading a whole log does: what Read
	// returned for entry i is still entry i after later entries were read
	ents := make([]*Entry, k)
	for i := 0; i < k; i++ {
		e, err := r.Read()
		verifAssert(err == nil && e != nil, "C20/W/read-ok")
		ents[i] = e
	}
	e, err := r.Read()
	verifAssert(err != nil && e == nil, "C20/W/then-error")
	for i := 0; i < k; i++ {
		if ents[i] != nil {
			verifAssert(verifEqBytes(frame.VerifWireOf(ents[i].Frame), wires[i]), "C20/W/frame-equal")
		}
	}
	verifReach("C20/W")
}

// T: reader timestamp lemma: for every 64-bit value in the timestamp field the returned time has exactly that
// many microseconds since the epoch and no sub-microsecond part (so round trip of times = write lemma + this).
func verifHarness_C20_time(neg int) {
	us := verifNondetI64()
	if neg == 1 {
		verifAssume(us < 0)
	} else {
		verifAssume(us >= 0)
	}
	verifAssume(us > -(1<<62) && us < 1<<62)
	_, wire := verifFrame(1, 0)
	var log []byte
	log = append(log, verifBE64(uint64(us))...)
	log = append(log, wire...)
	r := &Reader{ByteReader: frame.VerifChunkReader(log, nil)}
	verifAssert(r.Initialize() == nil, "C20/T/reader-init")
	e, err := r.Read()
	verifAssert(err == nil && e != nil, "C20/T/read-ok")
	verifObserveU64("C20/T/unixmicro", uint64(e.Time.UnixMicro()))
	verifAssert(e.Time.UnixMicro() == us, "C20/T/unixmicro-equals-field")
	// no sub-microsecond part: the time is exactly us*1000 ns (range where UnixNano is representable: years 1678..2262)
	inNano := verifAnd(us > -9000000000000000, us < 9000000000000000)
	verifAssert(verifImplies(inNano, e.Time.UnixNano() == us*1000), "C20/T/no-submicrosecond")
	// the instant itself, not only its (wrapping) microsecond count: whole seconds since 1970 rounded down, and
	// the microseconds within that second
	sec := us / 1000000
	rem := us % 1000000
	if rem < 0 {
		sec--
		rem += 1000000
	}
	verifAssert(e.Time.Unix() == sec, "C20/T/seconds-since-1970")
	verifAssert(int64(e.Time.Nanosecond()) == rem*1000, "C20/T/microseconds-within-the-second")
	verifReach("C20/T")
}

// C: crash points. A valid log of k entries cut at every offset: exactly the complete entries, then errors only.
func verifHarness_C20_cut(k int, n int, cut int) {
	var log []byte
	ends := make([]int, k)
	wires := make([][]byte, k)
	// timestamp values are fixed here (before 1970, 1970, 2023 with a sub-second part): every field value is covered
	// by harness T; this harness is about where the cut falls
	stamps := []uint64{0xFFFFF00000000123, 0, 1700000000123456}
	for i := 0; i < k; i++ {
		us := stamps[i%3]
		_, wire := verifFrame(verifNondetRange(0, 2), n)
		wires[i] = wire
		log = append(log, verifBE64(us)...)
		log = append(log, wire...)
		ends[i] = len(log)
	}
	if cut > len(log) {
		verifReach("C20/C")
		return
	}
	r := &Reader{ByteReader: frame.VerifChunkReader(log[:cut], nil)}
	verifAssert(r.Initialize() == nil, "C20/C/reader-init")
	complete := 0
	for i := 0; i < k; i++ {
		if ends[i] <= cut {
			complete++
		}
	}
	got := make([]*Entry, complete)
	for i := 0; i < complete; i++ {
		e, err := r.Read()
		verifAssert(err == nil && e != nil, "C20/C/complete-entry-returned")
		got[i] = e
	}
	// compared after all of them were read: an entry handed out stays what it was
	for i := 0; i < complete; i++ {
		if got[i] != nil {
			verifAssert(verifEqBytes(frame.VerifWireOf(got[i].Frame), wires[i]), "C20/C/complete-entry-frame")
			verifAssert(uint64(got[i].Time.UnixMicro()) == stamps[i%3], "C20/C/complete-entry-time")
		}
	}
	for j := 0; j < 4; j++ {
		e, err := r.Read()
		verifAssert(err != nil, "C20/C/after-cut-only-errors")
		verifAssert(e == nil, "C20/C/no-fabricated-entry")
	}
	verifReach("C20/C")
}

// E: an entry whose frame cannot be encoded leaves no bytes; transport write errors are reported.
func verifHarness_C20_unencodable(n int) {
	rec := &frame.VerifRecWriter{}
	w := &Writer{ByteWriter: rec}
	verifAssert(w.Initialize() == nil, "C20/E/init")
	id := verifNondetU32()
	verifAssume(id > 0xFF)
	fr := &frame.V1Frame{SequenceNumber: verifNondetU8(), SystemID: verifNondetU8(), ComponentID: verifNondetU8(),
		Checksum: verifNondetU16(), Message: &message.MessageRaw{ID: id, Payload: verifNondetBytes(n)}}
	sec := verifNondetI64()
	verifAssume(sec > -(1<<42) && sec < 1<<42)
	err := w.Write(&Entry{Time: time.Unix(sec, 0), Frame: fr})
	verifAssert(err != nil, "C20/E/unencodable-reports-error")
	verifAssert(len(rec.Buf()) == 0, "C20/E/unencodable-leaves-no-bytes")
	verifReach("C20/E")
}

// failAt >= 10: the same with a byte writer that is file-like (it also has Sync, Close, Name... methods a log writer
// might look for); what those report does not replace the outcome of the Write
func verifHarness_C20_writefail(n int, failAt int) {
	rec := &frame.VerifRecWriter{}
	var bw io.Writer = rec
	if failAt >= 10 {
		failAt -= 10
		bw = &verifFileLikeWriter{VerifRecWriter: rec}
	}
	rec.SetFailAt(failAt)
	w := &Writer{ByteWriter: bw}
	verifAssert(w.Initialize() == nil, "C20/F/init")
	fr, _ := verifFrame(verifNondetRange(0, 2), n)
	sec := verifNondetI64()
	verifAssume(sec > -(1<<42) && sec < 1<<42)
	err := w.Write(&Entry{Time: time.Unix(sec, 0), Frame: fr})
	if rec.Calls() >= failAt {
		verifAssert(err == frame.VerifErrInjected, "C20/F/transport-error-reported")
	} else {
		verifAssert(err == nil, "C20/F/ok-when-no-failure")
	}
	verifReach("C20/F")
}

// a byte writer with the extra methods of an *os.File
type verifFileLikeWriter struct {
	*frame.VerifRecWriter
	syncs, closes int
}

func (w *verifFileLikeWriter) Sync() error  { w.syncs++; return nil }
func (w *verifFileLikeWriter) Flush() error { w.syncs++; return nil }
func (w *verifFileLikeWriter) Close() error { w.closes++; return nil }
func (w *verifFileLikeWriter) Name() string { return "log.tlog" }

// E2: an unencodable entry between valid ones leaves no trace: the file holds exactly the valid entries
func verifHarness_C20_fail_then_ok(n int) {
	rec := &frame.VerifRecWriter{}
	w := &Writer{ByteWriter: rec}
	verifAssert(w.Initialize() == nil, "C20/E2/init")
	id := verifNondetU32()
	verifAssume(id > 0xFF)
	bad := &frame.V1Frame{SequenceNumber: verifNondetU8(), Checksum: verifNondetU16(), Message: &message.MessageRaw{ID: id, Payload: verifNondetBytes(n)}}
	verifAssert(w.Write(&Entry{Time: time.Unix(1600000000, 0), Frame: bad}) != nil, "C20/E2/unencodable-reports-error")
	fr, wire := verifFrame(verifNondetRange(0, 2), n)
	verifAssert(w.Write(&Entry{Time: time.Unix(1700000000, 123456000), Frame: fr}) == nil, "C20/E2/valid-entry-ok")
	var exp []byte
	exp = append(exp, verifBE64(1700000000123456)...)
	exp = append(exp, wire...)
	verifObserveBytes("C20/E2/file", rec.Buf())
	verifAssert(verifEqBytes(rec.Buf(), exp), "C20/E2/file-holds-only-the-valid-entry")
	verifReach("C20/E2")
}

// S: a valid log delivered by the transport in pieces (first read of `cut` bytes, then the rest, or 1-byte reads
// when cut < 0) reads back as the same entries. Timestamps fixed (all values: harness T).
func verifHarness_C20_readsplit(k int, n int, cut int) {
	var log []byte
	wires := make([][]byte, k)
	stamps := []uint64{0xFFFFF00000000123, 0, 1700000000123456}
	for i := 0; i < k; i++ {
		_, wire := verifFrame(verifNondetRange(0, 2), n)
		wires[i] = wire
		log = append(log, verifBE64(stamps[i%3])...)
		log = append(log, wire...)
	}
	var chunks []int
	if cut > 0 {
		chunks = []int{cut}
	}
	if cut < 0 {
		chunks = make([]int, len(log))
		for i := range chunks {
			chunks[i] = 1
		}
	}
	r := &Reader{ByteReader: frame.VerifChunkReader(log, chunks)}
	verifAssert(r.Initialize() == nil, "C20/S/reader-init")
	for i := 0; i < k; i++ {
		e, err := r.Read()
		verifAssert(err == nil && e != nil, "C20/S/entry-read-whatever-the-segmentation")
		if err == nil && e != nil {
			verifAssert(uint64(e.Time.UnixMicro()) == stamps[i%3], "C20/S/time-equal")
			verifAssert(verifEqBytes(frame.VerifWireOf(e.Frame), wires[i]), "C20/S/frame-equal")
		}
	}
	_, err := r.Read()
	verifAssert(err != nil, "C20/S/then-error")
	verifReach("C20/S")
}

// Wd: entries carrying dialect messages. A log written with a dialect from frames that hold DECODED messages (arbitrary
// field values, v1 and v2) holds, per entry, the timestamp and the spec frame with the message's spec payload; read back
// with the dialect, every entry carries the decoded message again (re-encoding it gives the same payload), header
// fields kept. The frames' checksums are the ones they were given (the log writer does not fill them).
func verifHarness_C20_dialect(version int, shape int) {
	d := frame.VerifDialectRW()
	rec := &frame.VerifRecWriter{}
	w := &Writer{ByteWriter: rec, DialectRW: d}
	verifAssert(w.Initialize() == nil, "C20/Wd/init")
	msg, full, spec := frame.VerifMsg(shape, 2)
	if sm, ok := msg.(*frame.MessageVerifString); ok {
		// a NUL inside the string cuts it on the wire (canonical form, C04); this harness is about the log
		for i := 0; i < len(sm.Name); i++ {
			verifAssume(sm.Name[i] != 0)
		}
	}
	seq, sys, comp := verifNondetU8(), verifNondetU8(), verifNondetU8()
	var fr frame.Frame
	var wire []byte
	if version == 1 {
		payload := full[:spec.SizeNormal()]
		ck := frame.VerifSpecChecksumV1(seq, sys, comp, byte(spec.ID()), payload, spec.CRCExtra())
		fr = &frame.V1Frame{SequenceNumber: seq, SystemID: sys, ComponentID: comp, Message: msg, Checksum: ck}
		wire = frame.VerifSpecV1(seq, sys, comp, byte(spec.ID()), payload, ck)
	} else {
		payload := frame.VerifTruncate(full)
		ck := frame.VerifSpecChecksumV2(0, 0, seq, sys, comp, spec.ID(), payload, spec.CRCExtra())
		fr = &frame.V2Frame{SequenceNumber: seq, SystemID: sys, ComponentID: comp, Message: msg, Checksum: ck}
		wire = frame.VerifSpecV2(0, 0, seq, sys, comp, spec.ID(), payload, ck, false, 0, 0, nil)
	}
	verifAssert(w.Write(&Entry{Time: time.Unix(1700000000, 123456000), Frame: fr}) == nil, "C20/Wd/write-ok")
	// a second entry: an already encoded (raw) frame whose message id the dialect does not know - a log holds whatever
	// was on the link
	rid := verifNondetU8()
	verifAssume(rid < 100) // ids 0..99 are outside the harness dialect (200..)
	rp := verifNondetBytes(2)
	rck := verifNondetU16()
	var rfr frame.Frame
	var rwire []byte
	if version == 1 {
		rfr = &frame.V1Frame{SequenceNumber: seq, SystemID: sys, ComponentID: comp, Checksum: rck,
			Message: &message.MessageRaw{ID: uint32(rid), Payload: rp}}
		rwire = frame.VerifSpecV1(seq, sys, comp, rid, []byte{rp[0], rp[1]}, rck)
	} else {
		rfr = &frame.V2Frame{SequenceNumber: seq, SystemID: sys, ComponentID: comp, Checksum: rck,
			Message: &message.MessageRaw{ID: uint32(rid), Payload: rp}}
		rwire = frame.VerifSpecV2(0, 0, seq, sys, comp, uint32(rid), []byte{rp[0], rp[1]}, rck, false, 0, 0, nil)
	}
	verifAssert(w.Write(&Entry{Time: time.Unix(1700000001, 0), Frame: rfr}) == nil, "C20/Wd/raw-entry-outside-the-dialect-written")
	whole := rec.Buf()
	verifAssert(len(whole) == 8+len(wire)+8+len(rwire) && verifEqBytes(whole[8+len(wire)+8:], rwire), "C20/Wd/file-holds-the-raw-frame-too")
	file := whole[:8+len(wire)]
	verifAssert(len(file) == 8+len(wire) && verifEqBytes(file[8:], wire), "C20/Wd/file-holds-the-spec-frame-of-the-message")
	verifAssert(verifBE64dec(file[:8]) == 1700000000123456, "C20/Wd/file-timestamp")
	r := &Reader{ByteReader: frame.VerifChunkReader(file, nil), DialectRW: d}
	verifAssert(r.Initialize() == nil, "C20/Wd/reader-init")
	e, err := r.Read()
	verifAssert(err == nil && e != nil, "C20/Wd/read-ok")
	if err == nil && e != nil {
		_, isRaw := e.Frame.GetMessage().(*message.MessageRaw)
		verifAssert(!isRaw, "C20/Wd/entry-carries-the-decoded-message")
		verifAssert(e.Frame.GetSequenceNumber() == seq && e.Frame.GetSystemID() == sys && e.Frame.GetComponentID() == comp, "C20/Wd/header-kept")
		if !isRaw {
			re := d.GetMessage(spec.ID()).Write(e.Frame.GetMessage(), version == 2)
			want := frame.VerifTruncate(full)
			if version == 1 {
				want = full[:spec.SizeNormal()]
			}
			verifAssert(verifEqBytes(re.Payload, want), "C20/Wd/decoded-message-equal")
		}
	}
	_, err = r.Read()
	verifAssert(err != nil, "C20/Wd/then-error")
	verifReach("C20/Wd")
}

// W2: every entry carries its own time: two (three) entries written in a row whose times go BACKWARDS - a log merged
// from several sources, a clock step - and an entry stamped with the zero time.Time: each timestamp field is the
// microsecond count of its own entry, whatever came before.
func verifHarness_C20_own_times() {
	rec := &frame.VerifRecWriter{}
	w := &Writer{ByteWriter: rec}
	verifAssert(w.Initialize() == nil, "C20/W2/init")
	// (concrete steps: the symbolic version of this arithmetic - every 64-bit time - is harness T / W)
	d := uint64(500000)
	base := int64(1700000000000000)
	times := []int64{base, base - int64(d), -62135596800000000, base - int64(d) - 1}
	pos := 0
	for i, us := range times {
		fr, wire := verifFrame(1, 0)
		var t time.Time
		if i != 2 {
			t = time.UnixMicro(us)
		}
		verifAssert(w.Write(&Entry{Time: t, Frame: fr}) == nil, "C20/W2/write-ok")
		file := rec.Buf()
		verifAssert(len(file) == pos+8+len(wire), "C20/W2/file-length")
		if len(file) == pos+8+len(wire) {
			verifAssert(verifBE64dec(file[pos:pos+8]) == uint64(us), "C20/W2/timestamp-is-the-entrys-own-time")
		}
		pos += 8 + len(wire)
	}
	verifReach("C20/W2")
}
