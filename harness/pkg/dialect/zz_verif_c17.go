package dialect

import (
	"github.com/bluenviron/gomavlib/v3/pkg/message"
)

var verifDynIDs [4]uint32

type MessageVerifDynA struct{ A uint8 }
type MessageVerifDynB struct{ B uint16 }
type MessageVerifDynC struct{ C uint32 }
type MessageVerifDynD struct{ D float32 }

func (*MessageVerifDynA) GetID() uint32 { return verifDynIDs[0] }
func (*MessageVerifDynB) GetID() uint32 { return verifDynIDs[1] }
func (*MessageVerifDynC) GetID() uint32 { return verifDynIDs[2] }
func (*MessageVerifDynD) GetID() uint32 { return verifDynIDs[3] }

// malformed: a field type the codec does not support
type MessageVerifBad struct{ X complex64 }

func (*MessageVerifBad) GetID() uint32 { return 4000000 }

// malformed: a field of a named type without the mavenum tag that says how it travels
type VerifNamedByte uint8

type MessageVerifBad2 struct {
	A    uint8
	Mode VerifNamedByte
}

func (*MessageVerifBad2) GetID() uint32 { return 4000000 }

type VerifEnum64 uint64

// malformed: enum carriers the wire format does not allow, a non-uint64 enum, a bad string length
type MessageVerifBad3 struct {
	A    uint8
	Mode VerifEnum64 `mavenum:"int16"`
}

func (*MessageVerifBad3) GetID() uint32 { return 4000000 }

type MessageVerifBad4 struct {
	Mode VerifEnum64 `mavenum:"float"`
}

func (*MessageVerifBad4) GetID() uint32 { return 4000000 }

type MessageVerifBad5 struct {
	Mode VerifNamedByte `mavenum:"uint8"`
}

func (*MessageVerifBad5) GetID() uint32 { return 4000000 }

type MessageVerifBad6 struct {
	Name string `mavlen:"x4"`
}

func (*MessageVerifBad6) GetID() uint32 { return 4000000 }

type MessageVerifBad7 struct {
	Mode VerifEnum64 `mavenum:"int64"`
}

func (*MessageVerifBad7) GetID() uint32 { return 4000000 }

// malformed: arrays of enums whose element type cannot carry an enum
type VerifEnumInt8 int8

type MessageVerifBad8 struct {
	Modes [4]VerifEnumInt8 `mavenum:"uint8"`
}

func (*MessageVerifBad8) GetID() uint32 { return 4000000 }

type MessageVerifBad9 struct {
	A     uint8
	Modes [2]float32 `mavenum:"uint32"`
}

func (*MessageVerifBad9) GetID() uint32 { return 4000000 }

// malformed: an array of arrays
type MessageVerifBad10 struct {
	A    uint8
	Grid [2][3]uint8
}

func (*MessageVerifBad10) GetID() uint32 { return 4000000 }

// D2: a dialect with duplicate ids or a malformed message struct is rejected when it is initialised
func verifHarness_C17_duplicates(k int, bad int) {
	all := []message.Message{&MessageVerifDynA{}, &MessageVerifDynB{}, &MessageVerifDynC{}, &MessageVerifDynD{}}
	msgs := all[:k]
	dup := false
	for i := 0; i < k; i++ {
		verifDynIDs[i] = verifNondetU32()
		verifAssume(verifDynIDs[i] != 4000000)
		for j := 0; j < i; j++ {
			dup = verifOr(dup, verifDynIDs[i] == verifDynIDs[j])
		}
	}
	if bad == 1 {
		msgs = append(msgs, &MessageVerifBad{})
	}
	switch bad {
	case 2:
		msgs = append(msgs, &MessageVerifBad2{})
	case 3:
		msgs = append(msgs, &MessageVerifBad3{})
	case 4:
		msgs = append(msgs, &MessageVerifBad4{})
	case 5:
		msgs = append(msgs, &MessageVerifBad5{})
	case 6:
		msgs = append(msgs, &MessageVerifBad6{})
	case 7:
		msgs = append(msgs, &MessageVerifBad7{})
	case 10:
		msgs = append(msgs, &MessageVerifBad8{})
	case 11:
		msgs = append(msgs, &MessageVerifBad9{})
	case 12:
		msgs = append(msgs, &MessageVerifBad10{})
	case 8:
		// the very same message value listed twice (a list built by concatenation): a duplicate id all the same
		msgs = append(msgs, msgs[0])
	case 9:
		msgs = append(append([]message.Message{}, msgs...), msgs[k-1])
	}
	rw := &ReadWriter{Dialect: &Dialect{Version: 1, Messages: msgs}}
	err := rw.Initialize()
	verifAssert(verifIff(err != nil, verifOr(dup, bad != 0)), "C17/rejected-iff-duplicate-id-or-malformed-struct")
	// trying again does not turn a rejected dialect into an accepted one (nor the reverse)
	err2 := rw.Initialize()
	verifAssert((err2 != nil) == (err != nil), "C17/same-verdict-when-initialized-again")
	if err == nil {
		for i := 0; i < k; i++ {
			mp := rw.GetMessage(verifDynIDs[i])
			verifAssert(mp != nil && mp.Message == msgs[i], "C17/accepted-dialect-serves-every-message")
		}
	}
	verifReach("C17/D2")
}

// D3: the deprecated constructors are the struct literal plus Initialize: dialect.NewReadWriter serves every message
// of the dialect (and reports a duplicate id at once), message.NewReadWriter yields the same codec parameters.
func verifHarness_C17_constructors(dup int) {
	a, b := &MessageVerifDynA{}, &MessageVerifDynB{}
	verifDynIDs[0] = verifNondetU32()
	verifDynIDs[1] = verifNondetU32()
	verifAssume(verifDynIDs[0] != 4000000 && verifDynIDs[1] != 4000000)
	if dup == 1 {
		verifAssume(verifDynIDs[0] == verifDynIDs[1])
	} else {
		verifAssume(verifDynIDs[0] != verifDynIDs[1])
	}
	d := &Dialect{Version: 3, Messages: []message.Message{a, b}}
	rw, err := NewReadWriter(d)
	verifAssert(verifIff(err != nil, dup == 1), "C17/D3/constructor-rejects-exactly-duplicate-ids")
	if err == nil {
		verifAssert(rw != nil && rw.Dialect == d, "C17/D3/constructor-keeps-the-dialect")
		ma, mb := rw.GetMessage(verifDynIDs[0]), rw.GetMessage(verifDynIDs[1])
		verifAssert(ma != nil && ma.Message == message.Message(a) && mb != nil && mb.Message == message.Message(b), "C17/D3/constructor-serves-every-message")
		ref := &message.ReadWriter{Message: a}
		verifAssert(ref.Initialize() == nil, "C17/D3/reference-codec")
		viaNew, err2 := message.NewReadWriter(a)
		verifAssert(err2 == nil && viaNew != nil && viaNew.Message == message.Message(a), "C17/D3/message-constructor-ok")
		if err2 == nil && viaNew != nil {
			verifAssert(viaNew.CRCExtra() == ref.CRCExtra() && ma.CRCExtra() == ref.CRCExtra(), "C17/D3/same-crc-extra")
		}
	}
	_, err3 := message.NewReadWriter(&MessageVerifBad{})
	verifAssert(err3 != nil, "C17/D3/message-constructor-rejects-a-malformed-struct")
	verifReach("C17/D3")
}
