package x25

// bitwise reference of one CRC-16/MCRF4XX (X.25, reflected 0x1021 = 0x8408) byte step,
// written branch-free so that the executor does not fork.
func verifRefStep(crc uint16, b byte) uint16 {
	crc ^= uint16(b)
	for i := 0; i < 8; i++ {
		mask := -(crc & 1)
		crc = (crc >> 1) ^ (0x8408 & mask)
	}
	return crc
}

// L1: the real X25.Write body, one byte, from an arbitrary register state.
func verifHarness_C02_L1() {
	s := verifNondetU16()
	b := verifNondetU8()
	x := &X25{crc: s}
	x.Write([]byte{b})
	verifAssert(x.crc == verifRefStep(s, b), "C02/L1/step")
	verifAssert(x.Sum16() == x.crc, "C02/L1/sum16-is-register")
	sum := x.Sum([]byte{0xAA})
	verifAssert(len(sum) == 3, "C02/L1/sum-len")
	verifAssert(verifAnd(sum[0] == 0xAA, verifAnd(sum[1] == byte(x.crc), sum[2] == byte(x.crc>>8))), "C02/L1/sum-bytes-lo-hi")
	y := New()
	verifAssert(y.crc == 0xFFFF, "C02/L1/new-init-ffff")
	x.Reset()
	verifAssert(x.crc == 0xFFFF, "C02/L1/reset-ffff")
	verifAssert(x.Size() == 2, "C02/L1/size")
	verifReach("C02/L1")
}

// L2: Write over a slice of n bytes equals n single-byte writes and any 2-way split.
func verifHarness_C02_L2(n int) {
	s := verifNondetU16()
	p := verifNondetBytes(n)
	x := &X25{crc: s}
	x.Write(p)
	ref := s
	for i := 0; i < n; i++ {
		ref = verifRefStep(ref, p[i])
	}
	verifAssert(x.crc == ref, "C02/L2/fold")
	for k := 0; k <= n; k++ {
		y := &X25{crc: s}
		y.Write(p[:k])
		y.Write(p[k:])
		verifAssert(y.crc == x.crc, "C02/L2/split")
	}
	verifReach("C02/L2")
}
