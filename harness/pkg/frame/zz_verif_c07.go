package frame

import (
	"github.com/bluenviron/gomavlib/v3/pkg/message"
)

func verifSignedWire(key *V2Key, n int, ts uint64) []byte {
	compat, seq, sys, comp := verifNondetU8(), verifNondetU8(), verifNondetU8(), verifNondetU8()
	id := verifNondetU32()
	verifAssume(id < 1<<24)
	ck := verifNondetU16()
	link := verifNondetU8()
	payload := verifNondetBytes(n)
	f := V2Frame{IncompatibilityFlag: 1, CompatibilityFlag: compat, SequenceNumber: seq, SystemID: sys, ComponentID: comp,
		Message: &message.MessageRaw{ID: id, Payload: payload}, Checksum: ck, SignatureLinkID: link, SignatureTimestamp: ts}
	// C07 is about the window, not the signature formula (C06): the frame is signed by the code under test
	sig := f.GenerateSignature(key)
	return verifSpecV2(1, compat, seq, sys, comp, id, payload, ck, true, link, ts, sig[:])
}

func verifNondetKey() *V2Key {
	key := new(V2Key)
	copy(key[:], verifNondetBytes(32))
	return key
}

// W: one inductive step of the replay window from an arbitrary pre-state.
func verifHarness_C07_window(n int) {
	cur := verifNondetU64()
	ts := verifNondetU64()
	verifAssume(cur < 1<<48)
	verifAssume(ts < 1<<48)
	key := verifNondetKey()
	wire := verifSignedWire(key, n, ts)
	rd := &Reader{ByteReader: &verifChunkReader{data: wire}, InKey: key}
	verifAssert(rd.Initialize() == nil, "C07/W/init")
	rd.curReadSignatureTime = cur
	fr, err := rd.Read()
	// spec: refused exactly when more than 1 000 000 ticks older than the newest accepted (cur == 0: none yet)
	refuse := verifAnd(cur > 0, ts+1000000 < cur)
	verifObserveBool("C07/W/refused", err != nil)
	verifAssert(verifIff(err != nil, refuse), "C07/W/decision")
	if err != nil {
		verifAssert(fr == nil, "C07/W/refused-no-frame")
		verifAssert(verifIsReadError(err), "C07/W/refused-is-parse-error")
		verifAssert(rd.curReadSignatureTime == cur, "C07/W/refused-state-unchanged")
	} else {
		verifAssert(fr != nil, "C07/W/accepted-frame")
		newest := verifIteU64(ts > cur, ts, cur)
		verifAssert(rd.curReadSignatureTime == newest, "C07/W/accepted-state-is-newest")
	}
	verifObserveU64("C07/W/cur-after", rd.curReadSignatureTime)
	verifReach("C07/W")
}

// H: a history of k frames from a fresh reader, against a reference model of the window.
func verifHarness_C07_history(k int) {
	key := verifNondetKey()
	var wire []byte
	tss := make([]uint64, k)
	for i := 0; i < k; i++ {
		tss[i] = verifNondetU64()
		verifAssume(tss[i] < 1<<48)
		wire = append(wire, verifSignedWire(key, 1, tss[i])...)
	}
	rd := &Reader{ByteReader: &verifChunkReader{data: wire}, InKey: key}
	verifAssert(rd.Initialize() == nil, "C07/H/init")
	var newest uint64
	seen := false
	for i := 0; i < k; i++ {
		_, err := rd.Read()
		refuse := verifAnd(seen, tss[i]+1000000 < newest)
		verifAssert(verifIff(err != nil, refuse), "C07/H/decision")
		verifObserveBool("C07/H/refused", err != nil)
		if err == nil {
			if !seen || verifBranch(tss[i] > newest) {
				newest = tss[i]
			}
			seen = true
		}
	}
	verifReach("C07/H")
}

// F: a frame that is not authenticated (wrong signature) never moves the remembered newest timestamp,
// whatever timestamp it carries; the next correctly signed frame is judged against the unchanged state.
func verifHarness_C07_forged(n int) {
	cur := verifNondetU64()
	verifAssume(cur < 1<<48)
	key := verifNondetKey()
	compat, seq, sys, comp := verifNondetU8(), verifNondetU8(), verifNondetU8(), verifNondetU8()
	id := verifNondetU32()
	verifAssume(id < 1<<24)
	ck := verifNondetU16()
	link := verifNondetU8()
	fts := verifNondetU64()
	verifAssume(fts < 1<<48)
	payload := verifNondetBytes(n)
	f := V2Frame{IncompatibilityFlag: 1, CompatibilityFlag: compat, SequenceNumber: seq, SystemID: sys, ComponentID: comp,
		Message: &message.MessageRaw{ID: id, Payload: payload}, Checksum: ck, SignatureLinkID: link, SignatureTimestamp: fts}
	good := f.GenerateSignature(key)
	// any six bytes other than the right signature, as a non-zero difference (replays against the real SHA-256)
	delta := verifNondetBytes(6)
	verifAssume(verifNot(verifEqBytes(delta, make([]byte, 6))))
	forged := make([]byte, 6)
	for i := range forged {
		forged[i] = good[i] ^ delta[i]
	}
	wire := verifSpecV2(1, compat, seq, sys, comp, id, payload, ck, true, link, fts, forged)
	// followed by a correctly signed frame
	ts := verifNondetU64()
	verifAssume(ts < 1<<48)
	wire = append(wire, verifSignedWire(key, 1, ts)...)
	rd := &Reader{ByteReader: &verifChunkReader{data: wire}, InKey: key}
	verifAssert(rd.Initialize() == nil, "C07/F/init")
	rd.curReadSignatureTime = cur
	fr, err := rd.Read()
	verifAssert(err != nil && fr == nil, "C07/F/forged-frame-refused")
	verifAssert(rd.curReadSignatureTime == cur, "C07/F/forged-frame-leaves-window-state-unchanged")
	_, err = rd.Read()
	refuse := verifAnd(cur > 0, ts+1000000 < cur)
	verifAssert(verifIff(err != nil, refuse), "C07/F/next-frame-judged-against-unchanged-state")
	verifReach("C07/F")
}
