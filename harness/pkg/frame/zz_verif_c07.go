package frame

import (
	"github.com/bluenviron/gomavlib/v3/pkg/message"
)

func verifSignedWire(key *V2Key, n int, ts uint64) []byte {
	compat, seq, sys, comp := verifNondetU8(), verifNondetU8(), verifNondetU8(), verifNondetU8()
	id := verifNondetU32()
	verifAssume(id < 1<<24)
	ck := verifNondetU16()
	link := verifNondetU8()
	payload := verifNondetBytes(n)
	f := V2Frame{IncompatibilityFlag: 1, CompatibilityFlag: compat, SequenceNumber: seq, SystemID: sys, ComponentID: comp,
		Message: &message.MessageRaw{ID: id, Payload: payload}, Checksum: ck, SignatureLinkID: link, SignatureTimestamp: ts}
	// C07 is about the window, not the signature formula (C06): the frame is signed by the code under test
	sig := f.GenerateSignature(key)
	return verifSpecV2(1, compat, seq, sys, comp, id, payload, ck, true, link, ts, sig[:])
}

func verifNondetKey() *V2Key {
	key := new(V2Key)
	copy(key[:], verifNondetBytes(32))
	return key
}

// W: one step of the replay window from an arbitrary reachable state, through the public API only: the state "newest
// accepted = cur" is what a fresh reader holds after accepting one frame stamped cur (cur = 0: indistinguishable from
// "none yet", as in the code and in the reference); then the frame under test (ts); then a probe frame that observes
// the state the reader is in afterwards. What the caller does with a returned frame (here: its timestamp field is
// overwritten) does not influence the reader.
func verifHarness_C07_window(n int) {
	cur := verifNondetU64()
	ts := verifNondetU64()
	probe := verifNondetU64()
	verifAssume(cur < 1<<48)
	verifAssume(ts < 1<<48)
	verifAssume(probe < 1<<48)
	key := verifNondetKey()
	wire := verifSignedWire(key, 1, cur)
	wire = append(wire, verifSignedWire(key, n, ts)...)
	wire = append(wire, verifSignedWire(key, 1, probe)...)
	rd := &Reader{ByteReader: &verifChunkReader{data: wire}, InKey: key}
	verifAssert(rd.Initialize() == nil, "C07/W/init")
	f0, err0 := rd.Read()
	verifAssert(err0 == nil && f0 != nil, "C07/W/first-frame-of-a-link-accepted")
	if g, ok := f0.(*V2Frame); ok {
		g.SignatureTimestamp = verifNondetU64() // the caller owns the returned frame
	}
	fr, err := rd.Read()
	// spec: refused exactly when more than 1 000 000 ticks older than the newest accepted (cur == 0: none yet)
	refuse := verifAnd(cur > 0, ts+1000000 < cur)
	verifObserveBool("C07/W/refused", err != nil)
	verifAssert(verifIff(err != nil, refuse), "C07/W/decision")
	newest := cur
	if err != nil {
		verifAssert(fr == nil, "C07/W/refused-no-frame")
		verifAssert(verifIsReadError(err), "C07/W/refused-is-parse-error")
	} else {
		verifAssert(fr != nil, "C07/W/accepted-frame")
		newest = verifIteU64(ts > cur, ts, cur)
		if g, ok := fr.(*V2Frame); ok {
			g.SignatureTimestamp = verifNondetU64()
		}
	}
	// the state afterwards, observed through the next frame: refused frames left it alone, accepted ones made it
	// the newer of the two
	_, err2 := rd.Read()
	verifAssert(verifIff(err2 != nil, verifAnd(newest > 0, probe+1000000 < newest)), "C07/W/state-afterwards-is-the-newest-accepted")
	verifReach("C07/W")
}

// H: a history of k frames from a fresh reader, against a reference model of the window.
func verifHarness_C07_history(k int) {
	key := verifNondetKey()
	var wire []byte
	tss := make([]uint64, k)
	for i := 0; i < k; i++ {
		tss[i] = verifNondetU64()
		verifAssume(tss[i] < 1<<48)
		wire = append(wire, verifSignedWire(key, 1, tss[i])...)
	}
	rd := &Reader{ByteReader: &verifChunkReader{data: wire}, InKey: key}
	verifAssert(rd.Initialize() == nil, "C07/H/init")
	var newest uint64
	seen := false
	for i := 0; i < k; i++ {
		_, err := rd.Read()
		refuse := verifAnd(seen, tss[i]+1000000 < newest)
		verifAssert(verifIff(err != nil, refuse), "C07/H/decision")
		verifObserveBool("C07/H/refused", err != nil)
		if err == nil {
			if !seen || verifBranch(tss[i] > newest) {
				newest = tss[i]
			}
			seen = true
		}
	}
	verifReach("C07/H")
}

// F: a frame that is not authenticated (wrong signature) never moves the remembered newest timestamp,
// whatever timestamp it carries; the next correctly signed frame is judged against the unchanged state.
func verifHarness_C07_forged(n int) {
	cur := verifNondetU64()
	verifAssume(cur < 1<<48)
	key := verifNondetKey()
	compat, seq, sys, comp := verifNondetU8(), verifNondetU8(), verifNondetU8(), verifNondetU8()
	id := verifNondetU32()
	verifAssume(id < 1<<24)
	ck := verifNondetU16()
	link := verifNondetU8()
	fts := verifNondetU64()
	verifAssume(fts < 1<<48)
	payload := verifNondetBytes(n)
	f := V2Frame{IncompatibilityFlag: 1, CompatibilityFlag: compat, SequenceNumber: seq, SystemID: sys, ComponentID: comp,
		Message: &message.MessageRaw{ID: id, Payload: payload}, Checksum: ck, SignatureLinkID: link, SignatureTimestamp: fts}
	good := f.GenerateSignature(key)
	// any six bytes other than the right signature, as a non-zero difference (replays against the real SHA-256)
	delta := verifNondetBytes(6)
	verifAssume(verifNot(verifEqBytes(delta, make([]byte, 6))))
	forged := make([]byte, 6)
	for i := range forged {
		forged[i] = good[i] ^ delta[i]
	}
	wire := verifSpecV2(1, compat, seq, sys, comp, id, payload, ck, true, link, fts, forged)
	// followed by a correctly signed frame
	ts := verifNondetU64()
	verifAssume(ts < 1<<48)
	wire = append(wire, verifSignedWire(key, 1, ts)...)
	// the pre-state "newest accepted = cur" is set up by a first, correctly signed frame stamped cur
	wire = append(verifSignedWire(key, 1, cur), wire...)
	rd := &Reader{ByteReader: &verifChunkReader{data: wire}, InKey: key}
	verifAssert(rd.Initialize() == nil, "C07/F/init")
	_, err0 := rd.Read()
	verifAssert(err0 == nil, "C07/F/first-frame-of-a-link-accepted")
	fr, err := rd.Read()
	verifAssert(err != nil && fr == nil, "C07/F/forged-frame-refused")
	_, err = rd.Read()
	refuse := verifAnd(cur > 0, ts+1000000 < cur)
	verifAssert(verifIff(err != nil, refuse), "C07/F/next-frame-judged-against-unchanged-state")
	verifReach("C07/F")
}
