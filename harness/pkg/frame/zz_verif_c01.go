package frame

import (
	"bufio"
	"io"

	"github.com/bluenviron/gomavlib/v3/pkg/message"
)

// C01: v1 frame of payload length n: spec layout, single write, lossless read-back.
// cut: size of the first transport chunk on the read side (0 = one chunk).
func verifHarness_C01_v1(n int, cut int) {
	seq, sys, comp := verifNondetU8(), verifNondetU8(), verifNondetU8()
	id := verifNondetU32()
	verifAssume(id <= 0xFF)
	ck := verifNondetU16()
	payload := verifNondetBytes(n)
	orig := make([]byte, n)
	copy(orig, payload)

	fr := &V1Frame{SequenceNumber: seq, SystemID: sys, ComponentID: comp, Checksum: ck,
		Message: &message.MessageRaw{ID: id, Payload: payload}}
	rec := &verifRecWriter{}
	w := &Writer{ByteWriter: rec}
	verifAssert(w.Initialize() == nil, "C01/v1/writer-init")
	err := w.Write(fr)
	verifAssert(err == nil, "C01/v1/write-ok")
	verifAssert(rec.calls == 1, "C01/v1/single-write-call")
	exp := verifSpecV1(seq, sys, comp, byte(id), orig, ck)
	verifAssert(verifEqBytes(rec.buf, exp), "C01/v1/spec-layout")
	verifObserveBytes("C01/v1/wire", rec.buf)

	var chunks []int
	if cut > 0 {
		chunks = []int{cut}
	}
	rd := &Reader{ByteReader: &verifChunkReader{data: rec.buf, chunks: chunks}}
	verifAssert(rd.Initialize() == nil, "C01/v1/reader-init")
	got, err := rd.Read()
	verifAssert(err == nil, "C01/v1/read-ok")
	g, ok := got.(*V1Frame)
	verifAssert(ok, "C01/v1/read-type")
	verifAssert(verifAnd(g.SequenceNumber == seq, verifAnd(g.SystemID == sys, g.ComponentID == comp)), "C01/v1/header-fields")
	verifAssert(g.Checksum == ck, "C01/v1/checksum-field")
	raw := verifRawOf(g.Message)
	verifAssert(raw != nil, "C01/v1/raw-message")
	verifAssert(raw.ID == id, "C01/v1/id")
	verifAssert(verifEqBytes(raw.Payload, orig), "C01/v1/payload")
	_, err = rd.Read()
	verifAssert(err == io.EOF, "C01/v1/then-eof")
	verifReach("C01/v1")
}

// C01: v2 frame, payload length n, signed = 0/1.
func verifHarness_C01_v2(n int, signed int, cut int) {
	compat, seq, sys, comp := verifNondetU8(), verifNondetU8(), verifNondetU8(), verifNondetU8()
	id := verifNondetU32()
	verifAssume(id < 1<<24)
	ck := verifNondetU16()
	payload := verifNondetBytes(n)
	orig := make([]byte, n)
	copy(orig, payload)
	incompat := byte(signed)

	fr := &V2Frame{IncompatibilityFlag: incompat, CompatibilityFlag: compat, SequenceNumber: seq, SystemID: sys,
		ComponentID: comp, Checksum: ck, Message: &message.MessageRaw{ID: id, Payload: payload}}
	var link byte
	var ts uint64
	var sigb []byte
	if signed == 1 {
		link = verifNondetU8()
		ts = verifNondetU64()
		verifAssume(ts < 1<<48)
		sigb = verifNondetBytes(6)
		sig := new(V2Signature)
		copy(sig[:], sigb)
		fr.SignatureLinkID = link
		fr.SignatureTimestamp = ts
		fr.Signature = sig
	}
	rec := &verifRecWriter{}
	w := &Writer{ByteWriter: rec}
	verifAssert(w.Initialize() == nil, "C01/v2/writer-init")
	err := w.Write(fr)
	verifAssert(err == nil, "C01/v2/write-ok")
	verifAssert(rec.calls == 1, "C01/v2/single-write-call")
	exp := verifSpecV2(incompat, compat, seq, sys, comp, id, orig, ck, signed == 1, link, ts, sigb)
	verifAssert(verifEqBytes(rec.buf, exp), "C01/v2/spec-layout")
	verifObserveBytes("C01/v2/wire", rec.buf)

	var chunks []int
	if cut > 0 {
		chunks = []int{cut}
	}
	rd := &Reader{ByteReader: &verifChunkReader{data: rec.buf, chunks: chunks}}
	verifAssert(rd.Initialize() == nil, "C01/v2/reader-init")
	got, err := rd.Read()
	verifAssert(err == nil, "C01/v2/read-ok")
	g, ok := got.(*V2Frame)
	verifAssert(ok, "C01/v2/read-type")
	verifAssert(verifAnd(g.IncompatibilityFlag == incompat, g.CompatibilityFlag == compat), "C01/v2/flags")
	verifAssert(verifAnd(g.SequenceNumber == seq, verifAnd(g.SystemID == sys, g.ComponentID == comp)), "C01/v2/header-fields")
	verifAssert(g.Checksum == ck, "C01/v2/checksum-field")
	raw := verifRawOf(g.Message)
	verifAssert(raw != nil, "C01/v2/raw-message")
	verifAssert(raw.ID == id, "C01/v2/id")
	verifAssert(verifEqBytes(raw.Payload, orig), "C01/v2/payload")
	verifObserveU64("C01/v2/read-id", uint64(raw.ID))
	verifObserveU64("C01/v2/read-ts", g.SignatureTimestamp)
	if signed == 1 {
		verifAssert(g.Signature != nil, "C01/v2/signature-present")
		verifAssert(verifAnd(g.SignatureLinkID == link, g.SignatureTimestamp == ts), "C01/v2/link-ts")
		verifAssert(verifEqBytes(g.Signature[:], sigb), "C01/v2/signature")
	} else {
		verifAssert(g.Signature == nil, "C01/v2/no-signature")
	}
	_, err = rd.Read()
	verifAssert(err == io.EOF, "C01/v2/then-eof")
	verifReach("C01/v2")
}

// C01: a v1 frame whose id does not fit 8 bits is refused and nothing is emitted.
func verifHarness_C01_v1_refuse(n int) {
	id := verifNondetU32()
	verifAssume(id > 0xFF)
	fr := &V1Frame{SequenceNumber: verifNondetU8(), SystemID: verifNondetU8(), ComponentID: verifNondetU8(),
		Checksum: verifNondetU16(), Message: &message.MessageRaw{ID: id, Payload: verifNondetBytes(n)}}
	rec := &verifRecWriter{}
	w := &Writer{ByteWriter: rec}
	verifAssert(w.Initialize() == nil, "C01/refuse/writer-init")
	err := w.Write(fr)
	verifAssert(err != nil, "C01/refuse/error")
	verifAssert(verifAnd(rec.calls == 0, len(rec.buf) == 0), "C01/refuse/nothing-emitted")
	verifReach("C01/refuse")
}

// C01: the reader is configured through BufByteReader with a caller-supplied bufio.Reader of the smallest size
// bufio allows (16 bytes): a written v2 frame, signed or not, is still read back field for field, whatever its
// payload length.
func verifHarness_C01_v2_smallbuf(n int, signed int) {
	compat, seq, sys, comp := verifNondetU8(), verifNondetU8(), verifNondetU8(), verifNondetU8()
	id := verifNondetU32()
	verifAssume(id < 1<<24)
	ck := verifNondetU16()
	payload := verifNondetBytes(n)
	orig := make([]byte, n)
	copy(orig, payload)
	fr := &V2Frame{IncompatibilityFlag: byte(signed), CompatibilityFlag: compat, SequenceNumber: seq, SystemID: sys,
		ComponentID: comp, Checksum: ck, Message: &message.MessageRaw{ID: id, Payload: payload}}
	var link byte
	var ts uint64
	var sigb []byte
	if signed == 1 {
		link = verifNondetU8()
		ts = verifNondetU64()
		verifAssume(ts < 1<<48)
		sigb = verifNondetBytes(6)
		sig := new(V2Signature)
		copy(sig[:], sigb)
		fr.SignatureLinkID = link
		fr.SignatureTimestamp = ts
		fr.Signature = sig
	}
	rec := &verifRecWriter{}
	w := &Writer{ByteWriter: rec}
	verifAssert(w.Initialize() == nil, "C01/v2s/writer-init")
	verifAssert(w.Write(fr) == nil, "C01/v2s/write-ok")
	// the caller keeps using its own bufio.Reader for what follows the frame (here one more byte)
	br := bufio.NewReaderSize(&verifChunkReader{data: append(append([]byte{}, rec.buf...), 0x55)}, 16)
	rd := &Reader{BufByteReader: br}
	verifAssert(rd.Initialize() == nil, "C01/v2s/reader-init")
	got, err := rd.Read()
	verifAssert(err == nil, "C01/v2s/read-ok")
	next, nerr := br.ReadByte()
	verifAssert(nerr == nil && next == 0x55, "C01/v2s/callers-buffer-holds-what-follows-the-frame")
	g, ok := got.(*V2Frame)
	verifAssert(ok, "C01/v2s/read-type")
	verifAssert(verifAnd(g.CompatibilityFlag == compat, verifAnd(g.SequenceNumber == seq, verifAnd(g.SystemID == sys, g.ComponentID == comp))), "C01/v2s/header-fields")
	verifAssert(g.Checksum == ck, "C01/v2s/checksum-field")
	raw := verifRawOf(g.Message)
	verifAssert(raw != nil && raw.ID == id, "C01/v2s/id")
	verifAssert(verifEqBytes(raw.Payload, orig), "C01/v2s/payload")
	if signed == 1 {
		verifAssert(g.Signature != nil, "C01/v2s/signature-present")
		verifAssert(verifAnd(g.SignatureLinkID == link, g.SignatureTimestamp == ts), "C01/v2s/link-ts")
		verifAssert(verifEqBytes(g.Signature[:], sigb), "C01/v2s/signature")
	}
	verifReach("C01/v2s")
}

// C01: the same for a v1 frame.
func verifHarness_C01_v1_smallbuf(n int) {
	seq, sys, comp, id := verifNondetU8(), verifNondetU8(), verifNondetU8(), verifNondetU8()
	ck := verifNondetU16()
	payload := verifNondetBytes(n)
	orig := make([]byte, n)
	copy(orig, payload)
	fr := &V1Frame{SequenceNumber: seq, SystemID: sys, ComponentID: comp, Checksum: ck,
		Message: &message.MessageRaw{ID: uint32(id), Payload: payload}}
	rec := &verifRecWriter{}
	w := &Writer{ByteWriter: rec}
	verifAssert(w.Initialize() == nil, "C01/v1s/writer-init")
	verifAssert(w.Write(fr) == nil, "C01/v1s/write-ok")
	br := bufio.NewReaderSize(&verifChunkReader{data: append(append([]byte{}, rec.buf...), 0x55)}, 16)
	rd := &Reader{BufByteReader: br}
	verifAssert(rd.Initialize() == nil, "C01/v1s/reader-init")
	got, err := rd.Read()
	verifAssert(err == nil, "C01/v1s/read-ok")
	next, nerr := br.ReadByte()
	verifAssert(nerr == nil && next == 0x55, "C01/v1s/callers-buffer-holds-what-follows-the-frame")
	g, ok := got.(*V1Frame)
	verifAssert(ok, "C01/v1s/read-type")
	verifAssert(verifAnd(g.SequenceNumber == seq, verifAnd(g.SystemID == sys, g.ComponentID == comp)), "C01/v1s/header-fields")
	verifAssert(g.Checksum == ck, "C01/v1s/checksum-field")
	raw := verifRawOf(g.Message)
	verifAssert(raw != nil && raw.ID == uint32(id), "C01/v1s/id")
	verifAssert(verifEqBytes(raw.Payload, orig), "C01/v1s/payload")
	verifReach("C01/v1s")
}

// C01: the (deprecated) OutVersion setting of a Writer only selects the frame type WriteMessage builds; Write accepts
// any frame, so a writer configured with the OTHER version still emits the full spec bytes of the frame it is given
// (a router forwarding v2 frames through a writer set to V1, and the reverse).
func verifHarness_C01_other_outversion(n int, kind int) {
	compat, seq, sys, comp := verifNondetU8(), verifNondetU8(), verifNondetU8(), verifNondetU8()
	ck := verifNondetU16()
	payload := verifNondetBytes(n)
	orig := make([]byte, n)
	copy(orig, payload)
	rec := &verifRecWriter{}
	var fr Frame
	var exp []byte
	w := &Writer{ByteWriter: rec, OutSystemID: 1}
	if kind == 0 {
		id := verifNondetU8()
		fr = &V1Frame{SequenceNumber: seq, SystemID: sys, ComponentID: comp, Checksum: ck,
			Message: &message.MessageRaw{ID: uint32(id), Payload: payload}}
		exp = verifSpecV1(seq, sys, comp, id, orig, ck)
		w.OutVersion = V2
	} else {
		id := verifNondetU32()
		verifAssume(id < 1<<24)
		f2 := &V2Frame{CompatibilityFlag: compat, SequenceNumber: seq, SystemID: sys, ComponentID: comp, Checksum: ck,
			Message: &message.MessageRaw{ID: id, Payload: payload}}
		var link byte
		var ts uint64
		var sigb []byte
		if kind == 2 {
			link = verifNondetU8()
			ts = verifNondetU64()
			verifAssume(ts < 1<<48)
			sigb = verifNondetBytes(6)
			sig := new(V2Signature)
			copy(sig[:], sigb)
			f2.IncompatibilityFlag = 1
			f2.SignatureLinkID = link
			f2.SignatureTimestamp = ts
			f2.Signature = sig
		}
		fr = f2
		exp = verifSpecV2(byte(kind-1), compat, seq, sys, comp, id, orig, ck, kind == 2, link, ts, sigb)
		w.OutVersion = V1
	}
	verifAssert(w.Initialize() == nil, "C01/ov/writer-init")
	verifAssert(w.Write(fr) == nil, "C01/ov/write-ok")
	verifAssert(rec.calls == 1, "C01/ov/single-write-call")
	verifAssert(verifEqBytes(rec.buf, exp), "C01/ov/spec-layout")
	verifReach("C01/ov")
}

// C01: the deprecated entry points are aliases: Writer.WriteFrame emits exactly what Write emits (the frame's own
// header fields and checksum, no dialect needed), for v1 (kind 0), v2 (1) and signed v2 (2) frames.
func verifHarness_C01_writeframe_alias(n int, kind int) {
	compat, seq, sys, comp := verifNondetU8(), verifNondetU8(), verifNondetU8(), verifNondetU8()
	ck := verifNondetU16()
	payload := verifNondetBytes(n)
	orig := make([]byte, n)
	copy(orig, payload)
	rec := &verifRecWriter{}
	var fr Frame
	var exp []byte
	if kind == 0 {
		id := verifNondetU8()
		fr = &V1Frame{SequenceNumber: seq, SystemID: sys, ComponentID: comp, Checksum: ck,
			Message: &message.MessageRaw{ID: uint32(id), Payload: payload}}
		exp = verifSpecV1(seq, sys, comp, id, orig, ck)
	} else {
		id := verifNondetU32()
		verifAssume(id < 1<<24)
		f2 := &V2Frame{CompatibilityFlag: compat, SequenceNumber: seq, SystemID: sys, ComponentID: comp, Checksum: ck,
			Message: &message.MessageRaw{ID: id, Payload: payload}}
		var link byte
		var ts uint64
		var sigb []byte
		if kind == 2 {
			link = verifNondetU8()
			ts = verifNondetU64()
			verifAssume(ts < 1<<48)
			sigb = verifNondetBytes(6)
			sig := new(V2Signature)
			copy(sig[:], sigb)
			f2.IncompatibilityFlag = 1
			f2.SignatureLinkID = link
			f2.SignatureTimestamp = ts
			f2.Signature = sig
		}
		fr = f2
		exp = verifSpecV2(byte(kind-1), compat, seq, sys, comp, id, orig, ck, kind == 2, link, ts, sigb)
	}
	w := &Writer{ByteWriter: rec, OutVersion: V2, OutSystemID: verifNondetU8(), OutComponentID: verifNondetU8()}
	verifAssert(w.Initialize() == nil, "C01/wf/writer-init")
	verifAssert(w.WriteFrame(fr) == nil, "C01/wf/write-ok")
	verifAssert(rec.calls == 1, "C01/wf/single-write-call")
	verifAssert(verifEqBytes(rec.buf, exp), "C01/wf/spec-layout")
	verifReach("C01/wf")
}
