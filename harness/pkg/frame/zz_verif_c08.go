package frame

import (
	"io"

	"github.com/bluenviron/gomavlib/v3/pkg/message"
)

// field-wise equality of two decoded harness messages (floats by bit pattern)
func verifMsgEq(a, b message.Message) bool {
	switch x := a.(type) {
	case *MessageVerifScalars:
		y, ok := b.(*MessageVerifScalars)
		if !ok {
			return false
		}
		return verifAnd(verifAnd(x.A == y.A, x.B == y.B), verifAnd(verifAnd(x.C == y.C, x.D == y.D), verifF32bits(x.E) == verifF32bits(y.E)))
	case *MessageVerifString:
		y, ok := b.(*MessageVerifString)
		if !ok {
			return false
		}
		return verifAnd(verifEqStr(x.Name, y.Name), x.V == y.V)
	case *MessageVerifExt:
		y, ok := b.(*MessageVerifExt)
		if !ok {
			return false
		}
		return verifAnd(verifAnd(x.A == y.A, x.B == y.B), verifAnd(x.X == y.X, verifAnd(x.Y[0] == y.Y[0], x.Y[1] == y.Y[1])))
	case *MessageVerifEnumArr:
		y, ok := b.(*MessageVerifEnumArr)
		if !ok {
			return false
		}
		return verifAnd(verifAnd(x.Modes[0] == y.Modes[0], x.Modes[1] == y.Modes[1]),
			verifAnd(x.Modes[2] == y.Modes[2], verifAnd(x.K == y.K, verifF64bits(x.F) == verifF64bits(y.F))))
	case *message.MessageRaw:
		y, ok := b.(*message.MessageRaw)
		if !ok {
			return false
		}
		return verifAnd(x.ID == y.ID, verifEqBytes(x.Payload, y.Payload))
	}
	return false
}

func verifHeaderEq(a, b Frame) bool {
	switch x := a.(type) {
	case *V1Frame:
		y, ok := b.(*V1Frame)
		if !ok {
			return false
		}
		return verifAnd(x.SequenceNumber == y.SequenceNumber, verifAnd(x.SystemID == y.SystemID, x.ComponentID == y.ComponentID))
	case *V2Frame:
		y, ok := b.(*V2Frame)
		if !ok {
			return false
		}
		return verifAnd(verifAnd(x.IncompatibilityFlag == y.IncompatibilityFlag, x.CompatibilityFlag == y.CompatibilityFlag),
			verifAnd(x.SequenceNumber == y.SequenceNumber, verifAnd(x.SystemID == y.SystemID, x.ComponentID == y.ComponentID)))
	}
	return false
}

// N: without a dialect, read-then-write reproduces the received bytes exactly (so any number of hops does).
// kind 0: v1, 1: v2 unsigned, 2: v2 signed.
func verifHarness_C08_N(kind int, n int) {
	seq, sys, comp, compat := verifNondetU8(), verifNondetU8(), verifNondetU8(), verifNondetU8()
	id := verifNondetU32()
	ck := verifNondetU16()
	payload := verifNondetBytes(n)
	var wire []byte
	switch kind {
	case 0:
		verifAssume(id <= 0xFF)
		wire = verifSpecV1(seq, sys, comp, byte(id), payload, ck)
	case 1:
		verifAssume(id < 1<<24)
		wire = verifSpecV2(0, compat, seq, sys, comp, id, payload, ck, false, 0, 0, nil)
	default:
		verifAssume(id < 1<<24)
		ts := verifNondetU64()
		verifAssume(ts < 1<<48)
		wire = verifSpecV2(1, compat, seq, sys, comp, id, payload, ck, true, verifNondetU8(), ts, verifNondetBytes(6))
	}
	rd := &Reader{ByteReader: &verifChunkReader{data: wire}}
	verifAssert(rd.Initialize() == nil, "C08/N/reader-init")
	fr, err := rd.Read()
	verifAssert(err == nil, "C08/N/accepted")
	rec := &verifRecWriter{}
	w := &Writer{ByteWriter: rec}
	verifAssert(w.Initialize() == nil, "C08/N/writer-init")
	verifAssert(w.Write(fr) == nil, "C08/N/write-ok")
	verifObserveBytes("C08/N/forwarded", rec.buf)
	verifAssert(verifEqBytes(rec.buf, wire), "C08/N/forwarded-bytes-identical")
	verifReach("C08/N")
}

// D: with a dialect. Any frame the reader accepted (arbitrary payload bytes of length n, hence canonical and
// non-canonical encodings, correct checksum), written unchanged, is accepted by the next hop and decodes
// to the same message with the same header fields.
func verifHarness_C08_D(version int, shape int, n int) {
	d := verifDialectRW()
	s := verifSpecs()[shape]
	extra := verifSpecCRCExtra(s)
	compat, seq, sys, comp := verifNondetU8(), verifNondetU8(), verifNondetU8(), verifNondetU8()
	payload := verifNondetBytes(n)
	var wire []byte
	if version == 1 {
		ck := verifSpecChecksumV1(seq, sys, comp, byte(s.id), payload, extra)
		wire = verifSpecV1(seq, sys, comp, byte(s.id), payload, ck)
	} else if version == 2 {
		ck := verifSpecChecksumV2(0, compat, seq, sys, comp, s.id, payload, extra)
		wire = verifSpecV2(0, compat, seq, sys, comp, s.id, payload, ck, false, 0, 0, nil)
	} else {
		// version 3: a signed v2 frame through hops that hold no key (signature block arbitrary): the checksum
		// clause is the same
		link := verifNondetU8()
		ts := verifNondetU64()
		verifAssume(ts < 1<<48)
		ck := verifSpecChecksumV2(1, compat, seq, sys, comp, s.id, payload, extra)
		wire = verifSpecV2(1, compat, seq, sys, comp, s.id, payload, ck, true, link, ts, verifNondetBytes(6))
	}
	r1 := &Reader{ByteReader: &verifChunkReader{data: wire}, DialectRW: d}
	verifAssert(r1.Initialize() == nil, "C08/D/reader-init")
	fr, err := r1.Read()
	if err != nil {
		// not a frame the reader accepted (v1 with a length other than the exact base length)
		verifReach("C08/D")
		return
	}
	m1 := fr.GetMessage()
	h1 := verifWireHeaderCopy(fr)
	rec := &verifRecWriter{}
	w := &Writer{ByteWriter: rec, DialectRW: d}
	verifAssert(w.Initialize() == nil, "C08/D/writer-init")
	verifAssert(w.Write(fr) == nil, "C08/D/forward-write-ok")
	verifObserveBytes("C08/D/forwarded", rec.buf)
	r2 := &Reader{ByteReader: &verifChunkReader{data: rec.buf}, DialectRW: d}
	verifAssert(r2.Initialize() == nil, "C08/D/reader2-init")
	fr2, err2 := r2.Read()
	verifAssert(err2 == nil, "C08/D/next-hop-accepts-forwarded-frame")
	if err2 == nil {
		verifAssert(verifMsgEq(m1, fr2.GetMessage()), "C08/D/next-hop-decodes-same-message")
		verifAssert(verifHeaderEq(h1, fr2), "C08/D/header-fields-kept")
		_, err3 := r2.Read()
		verifAssert(err3 == io.EOF, "C08/D/nothing-but-the-frame-is-forwarded")
	}
	verifReach("C08/D")
}

func verifWireHeaderCopy(f Frame) Frame {
	switch x := f.(type) {
	case *V1Frame:
		c := *x
		return &c
	case *V2Frame:
		c := *x
		return &c
	}
	return nil
}
