package frame

import (
	"github.com/bluenviron/gomavlib/v3/pkg/dialect"
	"github.com/bluenviron/gomavlib/v3/pkg/message"
)

func verifLE(v uint64, n int) []byte {
	out := make([]byte, n)
	for i := 0; i < n; i++ {
		out[i] = byte((v >> (8 * uint(i))) & 0xFF)
	}
	return out
}

func verifNondetString(n int) string { return string(verifNondetBytes(n)) }

// char[size] field: the string's bytes up to size, NUL padded
func verifChars(s string, size int) []byte {
	out := make([]byte, size)
	for i := 0; i < size && i < len(s); i++ {
		out[i] = s[i]
	}
	return out
}

// VerifMsg: an arbitrary value of harness message `shape`, and the untruncated extended payload the MAVLink
// rules prescribe for it (hand-written per shape: base fields by descending size, stable; extensions after).
// strlen: length of the string field value for shape 1 (may exceed the declared 4).
func VerifMsg(shape int, strlen int) (message.Message, []byte, VerifMsgSpec) {
	var out []byte
	switch shape {
	case 0:
		a, b, c, d, e := verifNondetU32(), verifNondetU16(), verifNondetU8(), verifNondetU64(), verifNondetU32()
		m := &MessageVerifScalars{A: a, B: int16(b), C: c, D: d, E: verifF32frombits(e)}
		out = append(out, verifLE(d, 8)...)
		out = append(out, verifLE(uint64(a), 4)...)
		out = append(out, verifLE(uint64(e), 4)...)
		out = append(out, verifLE(uint64(b), 2)...)
		out = append(out, c)
		return m, out, VerifSpecOf(200)
	case 1:
		s := verifNondetString(strlen)
		v := verifNondetU16()
		m := &MessageVerifString{Name: s, V: v}
		out = append(out, verifLE(uint64(v), 2)...)
		out = append(out, verifChars(s, 4)...)
		return m, out, VerifSpecOf(201)
	case 2:
		a, b, x, y0, y1 := verifNondetU8(), verifNondetU32(), verifNondetU16(), verifNondetU8(), verifNondetU8()
		m := &MessageVerifExt{A: a, B: b, X: x, Y: [2]uint8{y0, y1}}
		out = append(out, verifLE(uint64(b), 4)...)
		out = append(out, a)
		out = append(out, verifLE(uint64(x), 2)...)
		out = append(out, y0, y1)
		return m, out, VerifSpecOf(202)
	default:
		m0, m1, m2, k, f := verifNondetU64(), verifNondetU64(), verifNondetU64(), verifNondetU64(), verifNondetU64()
		m := &MessageVerifEnumArr{Modes: [3]VerifEnum{VerifEnum(m0), VerifEnum(m1), VerifEnum(m2)}, K: VerifEnum(k), F: verifF64frombits(f)}
		out = append(out, verifLE(f, 8)...)
		out = append(out, verifLE(k&0xFFFFFFFF, 4)...)
		out = append(out, byte(m0), byte(m1), byte(m2))
		return m, out, VerifSpecOf(203)
	}
}

// spec truncation for v2: strip trailing zero bytes, keep at least one byte
func VerifTruncate(p []byte) []byte {
	end := len(p)
	for end > 1 && p[end-1] == 0 {
		end--
	}
	return p[:end]
}

type VerifMsgSpec = verifMsgSpec

func (s verifMsgSpec) ID() uint32        { return s.id }
func (s verifMsgSpec) SizeNormal() int   { return s.sizeNormal }
func (s verifMsgSpec) SizeExtended() int { return s.sizeExtended }
func (s verifMsgSpec) CRCExtra() byte    { return verifSpecCRCExtra(s) }

func VerifSpecOf(id uint32) VerifMsgSpec { return verifSpecOf(id) }
func VerifSpecs() []VerifMsgSpec         { return verifSpecs() }
func VerifDialectRW() *dialect.ReadWriter { return verifDialectRW() }

func VerifSpecChecksumV1(seq, sys, comp, id byte, payload []byte, extra byte) uint16 {
	return verifSpecChecksumV1(seq, sys, comp, id, payload, extra)
}

func VerifSpecChecksumV2(incompat, compat, seq, sys, comp byte, id uint32, payload []byte, extra byte) uint16 {
	return verifSpecChecksumV2(incompat, compat, seq, sys, comp, id, payload, extra)
}

func VerifSpecSignature(key []byte, incompat, compat, seq, sys, comp byte, id uint32, payload []byte, ck uint16, link byte, ts uint64) []byte {
	return verifSpecSignature(key, incompat, compat, seq, sys, comp, id, payload, ck, link, ts)
}
