package frame

import (
	"io"
)

// spec serialisation of a frame object returned by the reader (raw messages only)
func verifWireOf(f Frame) []byte {
	switch ff := f.(type) {
	case *V1Frame:
		raw := verifRawOf(ff.Message)
		return verifSpecV1(ff.SequenceNumber, ff.SystemID, ff.ComponentID, byte(raw.ID), raw.Payload, ff.Checksum)
	case *V2Frame:
		raw := verifRawOf(ff.Message)
		var sig []byte
		if ff.Signature != nil {
			sig = ff.Signature[:]
		}
		return verifSpecV2(ff.IncompatibilityFlag, ff.CompatibilityFlag, ff.SequenceNumber, ff.SystemID, ff.ComponentID,
			raw.ID, raw.Payload, ff.Checksum, ff.Signature != nil, ff.SignatureLinkID, ff.SignatureTimestamp, sig)
	}
	return nil
}

func verifKind(f Frame, err error, transportErr error) int {
	if err == nil {
		verifAssert(f != nil, "C05/result/frame-nonnil")
		return 0
	}
	verifAssert(f == nil, "C05/result/error-no-frame")
	if verifIsReadError(err) {
		return 1
	}
	verifAssert(err == transportErr, "C05/result/transport-error-raw")
	return 2
}

// A: arbitrary stream of L bytes, two readers over the same bytes with different segmentation.
// mode 0: second reader gets 1-byte chunks; mode 1: one cut; mode 2: two cuts; mode 3: three cuts.
// inj 1: the transport ends with a non-EOF error instead of io.EOF.
func verifHarness_C05_arbitrary(L int, mode int, inj int) {
	stream := verifNondetBytes(L)
	var terr error = io.EOF
	if inj == 1 {
		terr = verifErrInjected
	}
	c1 := &verifChunkReader{data: stream}
	c2 := &verifChunkReader{data: stream}
	if inj == 1 {
		c1.err = verifErrInjected
		c2.err = verifErrInjected
	}
	switch mode {
	case 0:
		c2.chunks = make([]int, L)
		for i := range c2.chunks {
			c2.chunks[i] = 1
		}
	default:
		rem := L
		for i := 0; i < mode && rem > 1; i++ {
			a := verifNondetRange(1, rem-1)
			c2.chunks = append(c2.chunks, a)
			rem -= a
		}
	}
	r1 := &Reader{ByteReader: c1}
	r2 := &Reader{ByteReader: c2}
	verifAssert(r1.Initialize() == nil && r2.Initialize() == nil, "C05/A/init")
	prev := 0
	done := false
	for call := 0; call <= L; call++ {
		f1, e1 := r1.Read()
		f2, e2 := r2.Read()
		k1 := verifKind(f1, e1, terr)
		k2 := verifKind(f2, e2, terr)
		verifAssert(k1 == k2, "C05/A/split-independent-kind")
		consumed := c1.drawn - r1.BufByteReader.Buffered()
		consumed2 := c2.drawn - r2.BufByteReader.Buffered()
		verifAssert(consumed == consumed2, "C05/A/split-independent-position")
		if k1 == 2 {
			done = true
			verifAssert(consumed == L, "C05/A/transport-error-only-when-exhausted")
			break
		}
		verifAssert(consumed > prev, "C05/A/progress")
		if k1 == 0 && k2 == 0 {
			w1 := verifWireOf(f1)
			verifAssert(verifEqBytes(w1, stream[prev:consumed]), "C05/A/frame-is-consumed-bytes")
			verifAssert(verifEqBytes(verifWireOf(f2), w1), "C05/A/split-independent-frame")
		}
		prev = consumed
	}
	verifAssert(done, "C05/A/exhausted-within-n+1-calls")
	verifReach("C05/A")
}
