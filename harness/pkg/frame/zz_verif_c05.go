package frame

import (
	"io"
)

// spec serialisation of a frame object returned by the reader (raw messages only)
func verifWireOf(f Frame) []byte {
	switch ff := f.(type) {
	case *V1Frame:
		raw := verifRawOf(ff.Message)
		return verifSpecV1(ff.SequenceNumber, ff.SystemID, ff.ComponentID, byte(raw.ID), raw.Payload, ff.Checksum)
	case *V2Frame:
		raw := verifRawOf(ff.Message)
		var sig []byte
		if ff.Signature != nil {
			sig = ff.Signature[:]
		}
		return verifSpecV2(ff.IncompatibilityFlag, ff.CompatibilityFlag, ff.SequenceNumber, ff.SystemID, ff.ComponentID,
			raw.ID, raw.Payload, ff.Checksum, ff.Signature != nil, ff.SignatureLinkID, ff.SignatureTimestamp, sig)
	}
	return nil
}

func verifKind(f Frame, err error, transportErr error) int {
	if err == nil {
		verifAssert(f != nil, "C05/result/frame-nonnil")
		return 0
	}
	verifAssert(f == nil, "C05/result/error-no-frame")
	if verifIsReadError(err) {
		return 1
	}
	verifAssert(err == transportErr, "C05/result/transport-error-raw")
	return 2
}

// A: arbitrary stream of L bytes, two readers over the same bytes with different segmentation.
// mode 0: second reader gets 1-byte chunks; mode 1: one cut; mode 2: two cuts; mode 3: three cuts.
// inj 1: the transport ends with a non-EOF error instead of io.EOF.
func verifHarness_C05_arbitrary(L int, mode int, inj int) {
	stream := verifNondetBytes(L)
	var terr error = io.EOF
	if inj == 1 {
		terr = verifErrInjected
	}
	c1 := &verifChunkReader{data: stream}
	c2 := &verifChunkReader{data: stream}
	if inj == 1 {
		c1.err = verifErrInjected
		c2.err = verifErrInjected
	}
	switch mode {
	case 0:
		c2.chunks = make([]int, L)
		for i := range c2.chunks {
			c2.chunks[i] = 1
		}
	default:
		rem := L
		for i := 0; i < mode && rem > 1; i++ {
			a := verifNondetRange(1, rem-1)
			c2.chunks = append(c2.chunks, a)
			rem -= a
		}
	}
	r1 := &Reader{ByteReader: c1}
	r2 := &Reader{ByteReader: c2}
	verifAssert(r1.Initialize() == nil && r2.Initialize() == nil, "C05/A/init")
	prev := 0
	done := false
	for call := 0; call <= L; call++ {
		f1, e1 := r1.Read()
		f2, e2 := r2.Read()
		k1 := verifKind(f1, e1, terr)
		k2 := verifKind(f2, e2, terr)
		verifAssert(k1 == k2, "C05/A/split-independent-kind")
		consumed := c1.drawn - r1.BufByteReader.Buffered()
		consumed2 := c2.drawn - r2.BufByteReader.Buffered()
		verifAssert(consumed == consumed2, "C05/A/split-independent-position")
		if k1 == 2 {
			done = true
			verifAssert(consumed == L, "C05/A/transport-error-only-when-exhausted")
			break
		}
		verifAssert(consumed > prev, "C05/A/progress")
		if k1 == 0 && k2 == 0 {
			w1 := verifWireOf(f1)
			verifAssert(verifEqBytes(w1, stream[prev:consumed]), "C05/A/frame-is-consumed-bytes")
			verifAssert(verifEqBytes(verifWireOf(f2), w1), "C05/A/split-independent-frame")
		}
		prev = consumed
	}
	verifAssert(done, "C05/A/exhausted-within-n+1-calls")
	verifReach("C05/A")
}

// arbitrary frame of kind 0 (v1), 1 (v2) or 2 (signed v2) with an n-byte payload: its spec bytes
func verifAnyFrameWire(kind int, n int) []byte {
	seq, sys, comp, compat := verifNondetU8(), verifNondetU8(), verifNondetU8(), verifNondetU8()
	id := verifNondetU32()
	ck := verifNondetU16()
	payload := verifNondetBytes(n)
	switch kind {
	case 0:
		verifAssume(id <= 0xFF)
		return verifSpecV1(seq, sys, comp, byte(id), payload, ck)
	case 1:
		verifAssume(id < 1<<24)
		return verifSpecV2(0, compat, seq, sys, comp, id, payload, ck, false, 0, 0, nil)
	default:
		verifAssume(id < 1<<24)
		ts := verifNondetU64()
		verifAssume(ts < 1<<48)
		return verifSpecV2(1, compat, seq, sys, comp, id, payload, ck, true, verifNondetU8(), ts, verifNondetBytes(6))
	}
}

func verifNoise(n int) []byte {
	b := verifNondetBytes(n)
	for i := 0; i < n; i++ {
		verifAssume(b[i] != V1MagicByte && b[i] != V2MagicByte)
	}
	return b
}

// B: a stream made of valid frames separated by bytes that are not frame markers yields every frame, in order,
// each noise byte as one parse error, whatever the segmentation.
// layout: nb noise bytes, frame (k1,n1), nm noise bytes, frame (k2,n2), na noise bytes.
// mode 0: 1-byte chunks; 1/2: that many arbitrary cut points.
func verifHarness_C05_structured(k1 int, n1 int, k2 int, n2 int, noise int, mode int) {
	nb, nm, na := noise/100, (noise/10)%10, noise%10
	var stream []byte
	var kinds []int // expected result kinds in order: 1 parse error, 0 frame
	var wires [][]byte
	add := func(b []byte, frame bool) {
		if frame {
			kinds = append(kinds, 0)
			wires = append(wires, b)
		} else {
			for range b {
				kinds = append(kinds, 1)
				wires = append(wires, nil)
			}
		}
		stream = append(stream, b...)
	}
	add(verifNoise(nb), false)
	add(verifAnyFrameWire(k1, n1), true)
	add(verifNoise(nm), false)
	add(verifAnyFrameWire(k2, n2), true)
	add(verifNoise(na), false)
	L := len(stream)
	c1 := &verifChunkReader{data: stream}
	c2 := &verifChunkReader{data: stream}
	if mode == 0 {
		c2.chunks = make([]int, L)
		for i := range c2.chunks {
			c2.chunks[i] = 1
		}
	} else {
		rem := L
		for i := 0; i < mode && rem > 1; i++ {
			a := verifNondetRange(1, rem-1)
			c2.chunks = append(c2.chunks, a)
			rem -= a
		}
	}
	r1 := &Reader{ByteReader: c1}
	r2 := &Reader{ByteReader: c2}
	verifAssert(r1.Initialize() == nil && r2.Initialize() == nil, "C05/B/init")
	var kept []Frame
	var keptWire [][]byte
	for i := 0; i < len(kinds); i++ {
		f1, e1 := r1.Read()
		f2, e2 := r2.Read()
		if kinds[i] == 1 {
			verifAssert(e1 != nil && verifIsReadError(e1) && f1 == nil, "C05/B/noise-byte-is-one-parse-error")
			verifAssert(e2 != nil && verifIsReadError(e2) && f2 == nil, "C05/B/noise-byte-is-one-parse-error-any-split")
			continue
		}
		verifAssert(e1 == nil && f1 != nil, "C05/B/valid-frame-returned")
		verifAssert(e2 == nil && f2 != nil, "C05/B/valid-frame-returned-any-split")
		if e1 == nil && f1 != nil {
			verifAssert(verifEqBytes(verifWireOf(f1), wires[i]), "C05/B/frame-equals-its-bytes")
			kept = append(kept, f1)
			keptWire = append(keptWire, wires[i])
		}
		if e2 == nil && f2 != nil {
			verifAssert(verifEqBytes(verifWireOf(f2), wires[i]), "C05/B/frame-equals-its-bytes-any-split")
		}
	}
	_, e1 := r1.Read()
	_, e2 := r2.Read()
	verifAssert(e1 == io.EOF && e2 == io.EOF, "C05/B/then-end-of-stream")
	// a returned frame is the caller's: later calls do not change the frames handed out before
	for i := range kept {
		verifAssert(verifEqBytes(verifWireOf(kept[i]), keptWire[i]), "C05/B/frame-still-equals-its-bytes-after-later-reads")
	}
	verifReach("C05/B")
}

// T: a valid frame (kind, payload n) cut after `cut` bytes, the transport then ending with EOF (inj 0) or another
// error (inj 1): the first call never returns the cut frame (a parse error, or the transport's error when nothing
// but the marker was read), whole or in 1-byte reads. What the reader does with the leftover bytes afterwards is the
// arbitrary-stream harness A's subject.
func verifHarness_C05_truncated(kind int, n int, cut int, inj int) {
	wire := verifAnyFrameWire(kind, n)
	if cut >= len(wire) {
		verifReach("C05/T")
		return
	}
	var terr error = io.EOF
	if inj == 1 {
		terr = verifErrInjected
	}
	for mode := 0; mode < 2; mode++ {
		c := &verifChunkReader{data: wire[:cut]}
		if inj == 1 {
			c.err = verifErrInjected
		}
		if mode == 1 {
			c.chunks = make([]int, cut)
			for i := range c.chunks {
				c.chunks[i] = 1
			}
		}
		r := &Reader{ByteReader: c}
		verifAssert(r.Initialize() == nil, "C05/T/init")
		f, err := r.Read()
		verifAssert(err != nil && f == nil, "C05/T/no-frame-from-a-truncated-frame")
		if err != nil && !verifIsReadError(err) {
			verifAssert(err == terr, "C05/T/transport-error-raw")
		}
		consumed := c.drawn - r.BufByteReader.Buffered()
		verifAssert(consumed >= 1 && consumed <= cut, "C05/T/progress-within-the-stream")
	}
	verifReach("C05/T")
}

// transport with ONE transient fault: after `at` bytes a Read fails once with verifErrInjected, the next Read
// carries on with the data (a serial line glitch, an EINTR-like hiccup); 1-byte chunks when small is set
type verifGlitchReader struct {
	data  []byte
	pos   int
	at    int
	fired bool
	small bool
}

func (r *verifGlitchReader) Read(p []byte) (int, error) {
	if r.pos == r.at && !r.fired {
		r.fired = true
		return 0, verifErrInjected
	}
	if r.pos >= len(r.data) {
		return 0, io.EOF
	}
	n := len(r.data) - r.pos
	if r.pos < r.at && n > r.at-r.pos {
		n = r.at - r.pos
	}
	if r.small {
		n = 1
	}
	if n > len(p) {
		n = len(p)
	}
	copy(p, r.data[r.pos:r.pos+n])
	r.pos += n
	return n, nil
}

// G: a valid frame (kind, payload n) followed by a second valid frame, with one transient transport fault after
// `at` bytes of the first: every call returns a frame, a parse error or the transport's error - it never panics and
// never both - in the call that runs into the fault and in the next one, and the fault is reported at most once.
func verifHarness_C05_glitch(kind int, n int, at int, small int) {
	wire := verifAnyFrameWire(kind, n)
	if at > len(wire) {
		verifReach("C05/G")
		return
	}
	first := len(wire)
	wire = append(wire, verifAnyFrameWire(1, 1)...)
	g := &verifGlitchReader{data: wire, at: at, small: small == 1}
	r := &Reader{ByteReader: g}
	verifAssert(r.Initialize() == nil, "C05/G/init")
	between := at == 0 || at == first
	calls := 2 // the call that runs into the fault and the one after it (what follows is harness A's subject)
	if between {
		calls = 5 // a fault between frames: the whole stream is drained
	}
	faults, frames := 0, 0
	done := false
	for i := 0; i < calls && !done; i++ {
		f, err := r.Read()
		verifAssert((f == nil) != (err == nil), "C05/G/frame-xor-error")
		switch {
		case err == nil:
			frames++
		case err == io.EOF:
			done = true
		case verifIsReadError(err):
		default:
			verifAssert(err == verifErrInjected, "C05/G/transport-error-raw")
			faults++
		}
	}
	verifAssert(faults <= 1, "C05/G/fault-reported-at-most-once")
	if between {
		// a fault between frames costs nothing: both frames are delivered, then the stream ends
		verifAssert(frames == 2 && faults == 1 && done, "C05/G/fault-between-frames-loses-nothing")
	}
	verifReach("C05/G")
}
