package frame

// (c') the deprecated message path of frame.Writer: a keyed writer emits the signed flag, the configured link id, the
// clock in 10 us units and a signature per the formula, for any link id, ids and sequence state
// unset 1: OutVersion left at its zero value, which has always meant version 2
func verifHarness_C06_writemessage(shape int, unset int) {
	defer verifPatchClock()()
	keyb := verifNondetBytes(32)
	key := new(V2Key)
	copy(key[:], keyb)
	sys, comp, link, s := verifNondetU8(), verifNondetU8(), verifNondetU8(), verifNondetU8()
	rec := &verifRecWriter{}
	w := &Writer{ByteWriter: rec, DialectRW: verifDialectRW(), OutVersion: V2, OutSystemID: sys, OutComponentID: comp,
		OutSignatureLinkID: link, OutKey: key}
	if unset == 1 {
		w.OutVersion = 0
	}
	verifAssert(w.Initialize() == nil, "C06/c/init")
	w.nextSeqNumber = s
	msg, full, spec := VerifMsg(shape, 2)
	verifAssert(w.WriteMessage(msg) == nil, "C06/c/write-ok")
	clock := verifClockLast()
	if comp == 0 {
		comp = 1
	}
	payload := VerifTruncate(full)
	ck := verifSpecChecksumV2(1, 0, s, sys, comp, spec.ID(), payload, spec.CRCExtra())
	ts := clock / 10000
	sig := verifSpecSignature(keyb, 1, 0, s, sys, comp, spec.ID(), payload, ck, link, ts)
	exp := verifSpecV2(1, 0, s, sys, comp, spec.ID(), payload, ck, true, link, ts, sig)
	verifAssert(verifEqBytes(rec.buf, exp), "C06/c/frame-writer-message-is-the-signed-spec-frame")
	verifReach("C06/c")
}
