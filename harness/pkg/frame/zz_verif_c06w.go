package frame

// (c') the deprecated message path of frame.Writer: a keyed writer emits the signed flag, the configured link id, the
// clock in 10 us units and a signature per the formula, for any link id, ids and sequence state
// unset 1: OutVersion left at its zero value, which has always meant version 2
func verifHarness_C06_writemessage(shape int, unset int) {
	defer verifPatchClock()()
	keyb := verifNondetBytes(32)
	key := new(V2Key)
	copy(key[:], keyb)
	sys, comp, link, s := verifNondetU8(), verifNondetU8(), verifNondetU8(), verifNondetU8()
	rec := &verifRecWriter{}
	w := &Writer{ByteWriter: rec, DialectRW: verifDialectRW(), OutVersion: V2, OutSystemID: sys, OutComponentID: comp,
		OutSignatureLinkID: link, OutKey: key}
	if unset == 1 {
		w.OutVersion = 0
	}
	verifAssert(w.Initialize() == nil, "C06/c/init")
	w.nextSeqNumber = s
	msg, full, spec := VerifMsg(shape, 2)
	verifAssert(w.WriteMessage(msg) == nil, "C06/c/write-ok")
	clock := verifClockLast()
	if comp == 0 {
		comp = 1
	}
	payload := VerifTruncate(full)
	ck := verifSpecChecksumV2(1, 0, s, sys, comp, spec.ID(), payload, spec.CRCExtra())
	ts := clock / 10000
	sig := verifSpecSignature(keyb, 1, 0, s, sys, comp, spec.ID(), payload, ck, link, ts)
	exp := verifSpecV2(1, 0, s, sys, comp, spec.ID(), payload, ck, true, link, ts, sig)
	verifAssert(verifEqBytes(rec.buf, exp), "C06/c/frame-writer-message-is-the-signed-spec-frame")
	verifReach("C06/c")
}

// (c'') the key is read when a frame is signed: an application that rotates its key by overwriting the bytes of the
// V2Key it configured (same pointer) gets the second frame signed with the new bytes, the first with the old ones
func verifHarness_C06_key_rotated_in_place(shape int) {
	defer verifPatchClock()()
	keyb1 := verifNondetBytes(32)
	keyb2 := verifNondetBytes(32)
	key := new(V2Key)
	copy(key[:], keyb1)
	sys, comp, link := verifNondetU8(), verifNondetU8(), verifNondetU8()
	verifAssume(comp != 0)
	rec := &verifRecWriter{}
	w := &Writer{ByteWriter: rec, DialectRW: verifDialectRW(), OutVersion: V2, OutSystemID: sys, OutComponentID: comp,
		OutSignatureLinkID: link, OutKey: key}
	verifAssert(w.Initialize() == nil, "C06/c2/init")
	msg, full, spec := VerifMsg(shape, 2)
	payload := VerifTruncate(full)
	verifAssert(w.WriteMessage(msg) == nil, "C06/c2/write-ok")
	ts1 := verifClockLast() / 10000
	ck1 := verifSpecChecksumV2(1, 0, 0, sys, comp, spec.ID(), payload, spec.CRCExtra())
	exp1 := verifSpecV2(1, 0, 0, sys, comp, spec.ID(), payload, ck1, true, link, ts1,
		verifSpecSignature(keyb1, 1, 0, 0, sys, comp, spec.ID(), payload, ck1, link, ts1))
	verifAssert(verifEqBytes(rec.buf, exp1), "C06/c2/first-frame-signed-with-the-first-key")
	copy(key[:], keyb2)
	verifAssert(w.WriteMessage(msg) == nil, "C06/c2/write-ok")
	ts2 := verifClockLast() / 10000
	ck2 := verifSpecChecksumV2(1, 0, 1, sys, comp, spec.ID(), payload, spec.CRCExtra())
	exp2 := verifSpecV2(1, 0, 1, sys, comp, spec.ID(), payload, ck2, true, link, ts2,
		verifSpecSignature(keyb2, 1, 0, 1, sys, comp, spec.ID(), payload, ck2, link, ts2))
	if len(rec.buf) >= len(exp1) {
		verifAssert(verifEqBytes(rec.buf[len(exp1):], exp2), "C06/c2/second-frame-signed-with-the-bytes-the-key-holds-now")
	}
	verifReach("C06/c2")
}
