package frame

import (
	"github.com/bluenviron/gomavlib/v3/pkg/message"
)

// C03/C04, state across calls: ONE codec (message.ReadWriter) used twice in a row, as every link does. The second
// Write of an arbitrary value is the spec layout of that value, whatever was written before (strings shorter than
// the previous one included), and the second Read of an arbitrary (shorter, longer, differently truncated) payload
// decodes as a fresh codec decodes it. shape: harness message shape; l1, l2: string lengths (shape 1) of the two
// values; cut: the second payload is the canonical payload with `cut` more trailing bytes removed when they are zero.
func verifHarness_C04_twice(v2 int, shape int, l1 int, l2 int) {
	d := verifDialectRW()
	isV2 := v2 == 1
	a, fullA, spec := VerifMsg(shape, l1)
	b, fullB, _ := VerifMsg(shape, l2)
	mp := d.GetMessage(spec.ID())
	verifAssert(mp != nil, "C04/2x/codec")
	layout := func(full []byte) []byte {
		if isV2 {
			return VerifTruncate(full)
		}
		return full[:spec.SizeNormal()]
	}
	ra := mp.Write(a, isV2)
	verifAssert(verifEqBytes(ra.Payload, layout(fullA)), "C04/2x/first-write-is-spec-layout")
	rb := mp.Write(b, isV2)
	verifAssert(verifEqBytes(rb.Payload, layout(fullB)), "C04/2x/second-write-is-spec-layout-of-its-own-value")
	verifAssert(verifEqBytes(ra.Payload, layout(fullA)), "C04/2x/first-result-untouched-by-the-second-write")

	// decode the first payload, then the second, with the same codec; compare with a fresh codec on the second
	pa := append([]byte(nil), ra.Payload...)
	pb := append([]byte(nil), rb.Payload...)
	m1, err := mp.Read(&message.MessageRaw{ID: spec.ID(), Payload: pa}, isV2)
	verifAssert(err == nil, "C04/2x/first-read-ok")
	m2, err := mp.Read(&message.MessageRaw{ID: spec.ID(), Payload: pb}, isV2)
	verifAssert(err == nil, "C04/2x/second-read-ok")
	fresh := verifDialectRW().GetMessage(spec.ID())
	m2f, err := fresh.Read(&message.MessageRaw{ID: spec.ID(), Payload: append([]byte(nil), rb.Payload...)}, isV2)
	verifAssert(err == nil, "C04/2x/fresh-read-ok")
	if m1 != nil && m2 != nil && m2f != nil {
		verifAssert(verifMsgEq(m2, m2f), "C04/2x/second-read-equals-a-fresh-codecs-read")
		// and the first decoded value is not disturbed by the second read
		m1f, _ := fresh.Read(&message.MessageRaw{ID: spec.ID(), Payload: append([]byte(nil), ra.Payload...)}, isV2)
		if m1f != nil {
			verifAssert(verifMsgEq(m1, m1f), "C04/2x/first-decoded-value-untouched-by-the-second-read")
		}
	}
	verifReach("C04/2x")
}
