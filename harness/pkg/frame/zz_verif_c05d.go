package frame

import (
	"io"

	"github.com/bluenviron/gomavlib/v3/pkg/message"
)

// D: totality with a dialect. A v2 (kind 1) or v1 (kind 0) frame whose id belongs to the dialect (forked over the
// harness messages), with a payload of ANY length n (shorter than, equal to or longer than the message) and an
// arbitrary checksum, followed by a valid frame with an id outside the dialect: the first read returns a frame or a
// parse error (it never panics), the second returns the trailing frame, the third io.EOF.
func verifHarness_C05_dialect(kind int, n int) {
	d := verifDialectRW()
	specs := verifSpecs()
	s := specs[verifNondetRange(0, len(specs)-1)]
	compat, seq, sys, comp := verifNondetU8(), verifNondetU8(), verifNondetU8(), verifNondetU8()
	ck := verifNondetU16()
	payload := verifNondetBytes(n)
	var wire []byte
	if kind == 0 {
		wire = verifSpecV1(seq, sys, comp, byte(s.id), payload, ck)
	} else {
		wire = verifSpecV2(0, compat, seq, sys, comp, s.id, payload, ck, false, 0, 0, nil)
	}
	first := len(wire)
	tail := verifSpecV2(0, 0, 7, 8, 9, 999, []byte{1, 2}, 0x1234, false, 0, 0, nil)
	wire = append(wire, tail...)
	src := &verifChunkReader{data: wire}
	rd := &Reader{ByteReader: src, DialectRW: d}
	verifAssert(rd.Initialize() == nil, "C05/D/init")
	fr, err := rd.Read()
	verifAssert((fr == nil) != (err == nil), "C05/D/frame-xor-error")
	if err != nil {
		verifAssert(verifIsReadError(err), "C05/D/rejected-frame-is-a-parse-error")
	}
	verifAssert(src.drawn >= first, "C05/D/whole-frame-consumed")
	fr2, err2 := rd.Read()
	verifAssert(err2 == nil && fr2 != nil, "C05/D/following-frame-delivered")
	if err2 == nil {
		raw, isRaw := fr2.GetMessage().(*message.MessageRaw)
		verifAssert(isRaw && raw.ID == 999 && fr2.GetSequenceNumber() == 7, "C05/D/following-frame-intact")
	}
	_, err3 := rd.Read()
	verifAssert(err3 == io.EOF, "C05/D/then-eof")
	verifReach("C05/D")
}

// K: resynchronisation on a keyed link. A complete frame the keyed reader refuses (kind 0: a v1 frame, 1: an unsigned
// v2 frame; every byte arbitrary, so marker bytes may occur inside it) followed by a correctly signed v2 frame: one
// parse error that consumes exactly the refused frame, then the signed frame, then io.EOF.
func verifHarness_C05_keyed(kind int, n int) {
	keyb := verifNondetBytes(32)
	key := new(V2Key)
	copy(key[:], keyb)
	refused := verifAnyFrameWire(kind, n)
	seq, sys, comp, link := verifNondetU8(), verifNondetU8(), verifNondetU8(), verifNondetU8()
	ts := verifNondetU64()
	verifAssume(ts < 1<<48)
	payload := verifNondetBytes(2)
	ck := verifNondetU16()
	sig := verifSpecSignature(keyb, 1, 0, seq, sys, comp, 77, payload, ck, link, ts)
	good := verifSpecV2(1, 0, seq, sys, comp, 77, payload, ck, true, link, ts, sig)
	src := &verifChunkReader{data: append(append([]byte{}, refused...), good...)}
	rd := &Reader{ByteReader: src, InKey: key}
	verifAssert(rd.Initialize() == nil, "C05/K/init")
	f1, err1 := rd.Read()
	verifAssert(f1 == nil && err1 != nil && verifIsReadError(err1), "C05/K/refused-frame-is-one-parse-error")
	verifAssert(src.drawn-rd.BufByteReader.Buffered() == len(refused), "C05/K/refused-frame-consumed-whole")
	f2, err2 := rd.Read()
	verifAssert(err2 == nil && f2 != nil, "C05/K/following-signed-frame-delivered")
	if err2 == nil {
		verifAssert(verifEqBytes(verifWireOf(f2), good), "C05/K/following-frame-intact")
	}
	_, err3 := rd.Read()
	verifAssert(err3 == io.EOF, "C05/K/then-eof")
	verifReach("C05/K")
}
