package frame

import (
	"io"

	"github.com/bluenviron/gomavlib/v3/pkg/message"
)

// D: totality with a dialect. A v2 (kind 1) or v1 (kind 0) frame whose id belongs to the dialect (forked over the
// harness messages), with a payload of ANY length n (shorter than, equal to or longer than the message) and an
// arbitrary checksum, followed by a valid frame with an id outside the dialect: the first read returns a frame or a
// parse error (it never panics), the second returns the trailing frame, the third io.EOF.
func verifHarness_C05_dialect(kind int, n int) {
	d := verifDialectRW()
	specs := verifSpecs()
	s := specs[verifNondetRange(0, len(specs)-1)]
	compat, seq, sys, comp := verifNondetU8(), verifNondetU8(), verifNondetU8(), verifNondetU8()
	ck := verifNondetU16()
	payload := verifNondetBytes(n)
	var wire []byte
	if kind == 0 {
		wire = verifSpecV1(seq, sys, comp, byte(s.id), payload, ck)
	} else {
		wire = verifSpecV2(0, compat, seq, sys, comp, s.id, payload, ck, false, 0, 0, nil)
	}
	first := len(wire)
	tail := verifSpecV2(0, 0, 7, 8, 9, 999, []byte{1, 2}, 0x1234, false, 0, 0, nil)
	wire = append(wire, tail...)
	src := &verifChunkReader{data: wire}
	rd := &Reader{ByteReader: src, DialectRW: d}
	verifAssert(rd.Initialize() == nil, "C05/D/init")
	fr, err := rd.Read()
	verifAssert((fr == nil) != (err == nil), "C05/D/frame-xor-error")
	if err != nil {
		verifAssert(verifIsReadError(err), "C05/D/rejected-frame-is-a-parse-error")
	}
	verifAssert(src.drawn >= first, "C05/D/whole-frame-consumed")
	fr2, err2 := rd.Read()
	verifAssert(err2 == nil && fr2 != nil, "C05/D/following-frame-delivered")
	if err2 == nil {
		raw, isRaw := fr2.GetMessage().(*message.MessageRaw)
		verifAssert(isRaw && raw.ID == 999 && fr2.GetSequenceNumber() == 7, "C05/D/following-frame-intact")
	}
	_, err3 := rd.Read()
	verifAssert(err3 == io.EOF, "C05/D/then-eof")
	verifReach("C05/D")
}
