package frame

import (
	"github.com/bluenviron/gomavlib/v3/pkg/message"
)

// RS: the checksum gate on a keyed reader. A v2 frame with a dialect id that carries the spec signature for
// the bytes on the wire (so the signature check accepts it) and an arbitrary checksum: it is delivered iff
// the carried checksum is the spec value; a valid signature never stands in for the checksum. keyed 0: the same
// signed frame (arbitrary signature) at a reader with the dialect but WITHOUT a key.
func verifHarness_C02_RS(n int, keyed int) {
	d := verifDialectRW()
	specs := verifSpecs()
	s := specs[verifNondetRange(0, len(specs)-1)]
	extra := verifSpecCRCExtra(s)
	keyb := verifNondetBytes(32)
	key := new(V2Key)
	copy(key[:], keyb)
	compat, seq, sys, comp, link := verifNondetU8(), verifNondetU8(), verifNondetU8(), verifNondetU8(), verifNondetU8()
	ts := verifNondetU64()
	verifAssume(ts < 1<<48)
	ck := verifNondetU16()
	payload := verifNondetBytes(n)
	sigb := verifSpecSignature(keyb, 1, compat, seq, sys, comp, s.id, payload, ck, link, ts)
	wire := verifSpecV2(1, compat, seq, sys, comp, s.id, payload, ck, true, link, ts, sigb)
	want := verifSpecChecksumV2(1, compat, seq, sys, comp, s.id, payload, extra)
	if keyed == 0 {
		// a reader without a key does not look at signatures: signed frames (any signature) pass the same gate
		key = nil
		sigb = verifNondetBytes(6)
		wire = verifSpecV2(1, compat, seq, sys, comp, s.id, payload, ck, true, link, ts, sigb)
	}
	rd := &Reader{ByteReader: &verifChunkReader{data: wire}, DialectRW: d, InKey: key}
	verifAssert(rd.Initialize() == nil, "C02/RS/init")
	fr, err := rd.Read()
	verifAssert(verifIff(err == nil, ck == want), "C02/RS/signed-delivered-iff-checksum-matches")
	if err != nil {
		verifAssert(fr == nil, "C02/RS/refused-no-frame")
		verifAssert(verifIsReadError(err), "C02/RS/refused-is-parse-error")
	} else {
		_, isRaw := fr.GetMessage().(*message.MessageRaw)
		verifAssert(!isRaw, "C02/RS/delivered-decoded")
	}
	verifReach("C02/RS")
}
