package frame

import (
	"github.com/bluenviron/gomavlib/v3/pkg/message"
)

// spec checksum: CRC over len..payload then CRC_EXTRA, from 0xFFFF, no final xor
func verifSpecChecksumV1(seq, sys, comp, id byte, payload []byte, extra byte) uint16 {
	c := verifCrcFold(0xFFFF, []byte{byte(len(payload)), seq, sys, comp, id})
	c = verifCrcFold(c, payload)
	return verifCrcStep(c, extra)
}

func verifSpecChecksumV2(incompat, compat, seq, sys, comp byte, id uint32, payload []byte, extra byte) uint16 {
	c := verifCrcFold(0xFFFF, []byte{byte(len(payload)), incompat, compat, seq, sys, comp,
		byte(id & 0xFF), byte((id >> 8) & 0xFF), byte((id >> 16) & 0xFF)})
	c = verifCrcFold(c, payload)
	return verifCrcStep(c, extra)
}

// G: GenerateChecksum hashes exactly the spec sequence (both versions), for arbitrary header, payload and CRC_EXTRA.
func verifHarness_C02_G(n int) {
	incompat, compat, seq, sys, comp := verifNondetU8(), verifNondetU8(), verifNondetU8(), verifNondetU8(), verifNondetU8()
	id := verifNondetU32()
	extra := verifNondetU8()
	payload := verifNondetBytes(n)
	f2 := V2Frame{IncompatibilityFlag: incompat, CompatibilityFlag: compat, SequenceNumber: seq, SystemID: sys, ComponentID: comp,
		Message: &message.MessageRaw{ID: id, Payload: payload}}
	verifAssume(id < 1<<24)
	got2 := f2.GenerateChecksum(extra)
	verifObserveU64("C02/G/v2", uint64(got2))
	verifAssert(got2 == verifSpecChecksumV2(incompat, compat, seq, sys, comp, id, payload, extra), "C02/G/v2-sequence")
	f1 := V1Frame{SequenceNumber: seq, SystemID: sys, ComponentID: comp, Message: &message.MessageRaw{ID: id & 0xFF, Payload: payload}}
	got1 := f1.GenerateChecksum(extra)
	verifObserveU64("C02/G/v1", uint64(got1))
	verifAssert(got1 == verifSpecChecksumV1(seq, sys, comp, byte(id), payload, extra), "C02/G/v1-sequence")
	verifReach("C02/G")
}

// X: CRC_EXTRA and sizes of the harness dialect equal the hand-derived spec values (ground check of the test bed)
func verifHarness_C02_extras() {
	d := verifDialectRW()
	for _, s := range verifSpecs() {
		mp := d.GetMessage(s.id)
		verifAssert(mp != nil, "C02/X/lookup")
		verifAssert(mp.CRCExtra() == verifSpecCRCExtra(s), "C02/X/crc-extra")
	}
	verifAssert(d.GetMessage(7) == nil, "C02/X/absent")
	verifReach("C02/X")
}

// R: reader gate with a dialect. One frame with a dialect id (forked), arbitrary header, payload of length n,
// arbitrary carried checksum: delivered iff the carried checksum equals the spec value (and, for v1, the
// length is the exact base length); otherwise a parse error and no frame.
func verifHarness_C02_R(version int, n int, cut int) {
	d := verifDialectRW()
	specs := verifSpecs()
	s := specs[verifNondetRange(0, len(specs)-1)]
	extra := verifSpecCRCExtra(s)
	compat, seq, sys, comp := verifNondetU8(), verifNondetU8(), verifNondetU8(), verifNondetU8()
	ck := verifNondetU16()
	payload := verifNondetBytes(n)
	var wire []byte
	var want uint16
	if version == 1 {
		wire = verifSpecV1(seq, sys, comp, byte(s.id), payload, ck)
		want = verifSpecChecksumV1(seq, sys, comp, byte(s.id), payload, extra)
	} else {
		wire = verifSpecV2(0, compat, seq, sys, comp, s.id, payload, ck, false, 0, 0, nil)
		want = verifSpecChecksumV2(0, compat, seq, sys, comp, s.id, payload, extra)
	}
	var chunks []int
	if cut > 0 {
		chunks = []int{cut}
	}
	rd := &Reader{ByteReader: &verifChunkReader{data: wire, chunks: chunks}, DialectRW: d}
	verifAssert(rd.Initialize() == nil, "C02/R/init")
	fr, err := rd.Read()
	lengthOK := version == 2 || n == s.sizeNormal
	deliver := verifAnd(ck == want, lengthOK)
	verifAssert(verifIff(err == nil, deliver), "C02/R/delivered-iff-checksum-matches")
	if err != nil {
		verifAssert(fr == nil, "C02/R/refused-no-frame")
		verifAssert(verifIsReadError(err), "C02/R/refused-is-parse-error")
	} else {
		verifAssert(fr != nil && fr.GetMessage() != nil, "C02/R/delivered-frame")
		_, isRaw := fr.GetMessage().(*message.MessageRaw)
		verifAssert(!isRaw, "C02/R/delivered-decoded")
		verifAssert(fr.GetMessage().GetID() == s.id, "C02/R/delivered-id")
	}
	verifReach("C02/R")
}

// H: header damage. A v2 frame whose three id bytes, length and header bytes are arbitrary: it reaches the application
// as a decoded message only if the id on the wire belongs to the dialect and the carried checksum is the spec value
// for the bytes on the wire.
func verifHarness_C02_H(n int) {
	d := verifDialectRW()
	compat, seq, sys, comp := verifNondetU8(), verifNondetU8(), verifNondetU8(), verifNondetU8()
	id := verifNondetU32()
	verifAssume(id < 1<<24)
	ck := verifNondetU16()
	payload := verifNondetBytes(n)
	// the incompatibility-flags byte may be damaged too (anything but the signed flag alone, which announces a
	// signature block this stream does not hold)
	incompat := verifNondetU8()
	verifAssume(incompat != 1)
	wire := verifSpecV2(incompat, compat, seq, sys, comp, id, payload, ck, false, 0, 0, nil)
	rd := &Reader{ByteReader: &verifChunkReader{data: wire}, DialectRW: d}
	verifAssert(rd.Initialize() == nil, "C02/H/init")
	fr, err := rd.Read()
	if err != nil {
		// the whole frame is in the stream: whatever is wrong with it is a non-fatal parse error, never a transport error
		verifAssert(fr == nil, "C02/H/refused-no-frame")
		verifAssert(verifIsReadError(err), "C02/H/refused-is-parse-error")
	}
	verifAssert(verifImplies(incompat != 0, err != nil), "C02/H/unknown-incompatibility-flags-refused")
	if err == nil {
		_, isRaw := fr.GetMessage().(*message.MessageRaw)
		if !isRaw {
			// decoded: the wire id must be a dialect id and the checksum the spec value
			inDialect := false
			okck := false
			for _, s := range verifSpecs() {
				inDialect = verifOr(inDialect, id == s.id)
				okck = verifOr(okck, verifAnd(id == s.id, ck == verifSpecChecksumV2(incompat, compat, seq, sys, comp, id, payload, verifSpecCRCExtra(s))))
			}
			verifAssert(inDialect, "C02/H/decoded-only-if-wire-id-in-dialect")
			verifAssert(okck, "C02/H/decoded-only-if-checksum-covers-wire-bytes")
			verifAssert(fr.GetMessage().GetID() == id, "C02/H/decoded-id-is-wire-id")
		} else {
			raw := verifRawOf(fr.GetMessage())
			verifAssert(raw.ID == id, "C02/H/raw-id-is-wire-id")
		}
	}
	verifReach("C02/H")
}
