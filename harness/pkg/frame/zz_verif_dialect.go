package frame

import (
	"github.com/bluenviron/gomavlib/v3/pkg/dialect"
	"github.com/bluenviron/gomavlib/v3/pkg/message"
)

// harness dialect: four shapes spanning the (re-)encoding hazards, ids <= 255 so that v1 can carry them

type VerifEnum uint64

// (i) scalars only; wire order D(8) A(4) E(4) B(2) C(1) = 19 bytes
type MessageVerifScalars struct {
	A uint32
	B int16
	C uint8
	D uint64
	E float32
}

func (*MessageVerifScalars) GetID() uint32 { return 200 }

// (ii) char[4] followed by a scalar; wire order V(2) Name(4) = 6 bytes
type MessageVerifString struct {
	Name string `mavlen:"4"`
	V    uint16
}

func (*MessageVerifString) GetID() uint32 { return 201 }

// (iii) base + extension fields; base wire B(4) A(1) = 5, extended + X(2) Y(2) = 9
type MessageVerifExt struct {
	A uint8
	B uint32
	X uint16   `mavext:"true"`
	Y [2]uint8 `mavext:"true"`
}

func (*MessageVerifExt) GetID() uint32 { return 202 }

// (iv) enum array + enum scalar + double; wire order F(8) K(4) Modes(3) = 15
type MessageVerifEnumArr struct {
	Modes [3]VerifEnum `mavenum:"uint8"`
	K     VerifEnum    `mavenum:"uint32"`
	F     float64
}

func (*MessageVerifEnumArr) GetID() uint32 { return 203 }

// (v) a message whose own name contains the word "Message"
type MessageVerifMessageBox struct {
	V uint8
}

func (*MessageVerifMessageBox) GetID() uint32 { return 204 }

var verifDialect = &dialect.Dialect{
	Version: 3,
	Messages: []message.Message{
		&MessageVerifScalars{},
		&MessageVerifString{},
		&MessageVerifExt{},
		&MessageVerifEnumArr{},
		&MessageVerifMessageBox{},
	},
}

func verifDialectRW() *dialect.ReadWriter {
	d := &dialect.ReadWriter{Dialect: verifDialect}
	if err := d.Initialize(); err != nil {
		panic(err)
	}
	return d
}

// spec-derived constants of the harness messages, written out by hand from the MAVLink rules
// (CRC_EXTRA seed string: NAME, then per base field in wire order "type name " and the array length byte)
type verifMsgSpec struct {
	id           uint32
	sizeNormal   int
	sizeExtended int
	seed         []byte
}

func verifSpecs() []verifMsgSpec {
	return []verifMsgSpec{
		{200, 19, 19, []byte("VERIF_SCALARS uint64_t d uint32_t a float e int16_t b uint8_t c ")},
		{201, 6, 6, append([]byte("VERIF_STRING uint16_t v char name "), 4)},
		{202, 5, 9, []byte("VERIF_EXT uint32_t b uint8_t a ")},
		{203, 15, 15, append([]byte("VERIF_ENUM_ARR double f uint32_t k uint8_t modes "), 3)},
		{204, 1, 1, []byte("VERIF_MESSAGE_BOX uint8_t v ")},
	}
}

func verifSpecOf(id uint32) verifMsgSpec {
	for _, s := range verifSpecs() {
		if s.id == id {
			return s
		}
	}
	return verifMsgSpec{}
}

func verifSpecCRCExtra(s verifMsgSpec) byte {
	c := verifCrcFold(0xFFFF, s.seed)
	return byte(c&0xFF) ^ byte(c>>8)
}

// a dialect message whose id is chosen by the harness (used for ids that version 1 cannot represent)
var VerifBigID uint32

type MessageVerifBigID struct {
	V uint8
}

func (*MessageVerifBigID) GetID() uint32 { return VerifBigID }

func VerifDialectWithBigRW() *dialect.ReadWriter {
	d := &dialect.ReadWriter{Dialect: &dialect.Dialect{Version: 3, Messages: []message.Message{
		&MessageVerifScalars{}, &MessageVerifBigID{},
	}}}
	if err := d.Initialize(); err != nil {
		panic(err)
	}
	return d
}
