package frame

import (
	"io"
	"time"
)

// exported views of the harness helpers for harnesses living in other packages (tlog, streamwriter, root)

func VerifSpecV1(seq, sys, comp byte, id byte, payload []byte, ck uint16) []byte {
	return verifSpecV1(seq, sys, comp, id, payload, ck)
}

func VerifSpecV2(incompat, compat, seq, sys, comp byte, id uint32, payload []byte, ck uint16,
	signed bool, link byte, ts uint64, sig []byte,
) []byte {
	return verifSpecV2(incompat, compat, seq, sys, comp, id, payload, ck, signed, link, ts, sig)
}

func VerifWireOf(f Frame) []byte { return verifWireOf(f) }

type VerifRecWriter struct{ verifRecWriter }

func (w *VerifRecWriter) Buf() []byte     { return w.buf }
func (w *VerifRecWriter) Calls() int      { return w.calls }
func (w *VerifRecWriter) SetFailAt(k int) { w.failAt = k }
func (w *VerifRecWriter) SetFailFrom(k int) { w.failFrom = k }
func (w *VerifRecWriter) SetFailFull(b bool) { w.failFull = b }

var VerifErrInjected = verifErrInjected

func VerifChunkReader(data []byte, chunks []int) io.Reader {
	return &verifChunkReader{data: data, chunks: chunks}
}

// as VerifChunkReader, the last chunk arriving together with io.EOF
func VerifChunkReaderEndWithData(data []byte, chunks []int) io.Reader {
	return &verifChunkReader{data: data, chunks: chunks, endWithData: true}
}

func VerifIsReadError(err error) bool { return verifIsReadError(err) }

// the reference instant of the deprecated frame.Writer message path
func VerifSignatureReferenceDate() time.Time { return signatureReferenceDate }
