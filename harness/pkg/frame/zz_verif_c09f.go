package frame

// read/write transport for the constructor harness
type verifBothRW struct {
	verifRecWriter
	verifChunkReader
}

// C09/C06, configuration plumbing of the frame package: what NewReadWriter / NewReader / NewWriter (and
// ReadWriter.Initialize, which channels use) are given is what the reader and the writer end up with: dialect,
// incoming key, version, system id, component id (1 when unset), link id and outgoing key.
func verifHarness_C09_frame_conf(via int) {
	sys, comp, link := verifNondetU8(), verifNondetU8(), verifNondetU8()
	ver := WriterOutVersion(verifNondetRange(1, 2))
	var key *V2Key
	if verifNondetBool() {
		key = new(V2Key)
	}
	inKey := new(V2Key)
	d := verifDialectRW()
	t := &verifBothRW{}
	wantComp := comp
	if comp == 0 {
		wantComp = 1
	}
	var r *Reader
	var w *Writer
	switch via {
	case 0:
		rw, err := NewReadWriter(ReadWriterConf{ReadWriter: t, DialectRW: d, InKey: inKey, OutVersion: ver, OutSystemID: sys,
			OutComponentID: comp, OutSignatureLinkID: link, OutKey: key})
		verifAssert(err == nil, "C09/P/init-ok")
		r, w = rw.Reader, rw.Writer
	case 1:
		rw := &ReadWriter{ByteReadWriter: t, DialectRW: d, InKey: inKey, OutVersion: ver, OutSystemID: sys,
			OutComponentID: comp, OutSignatureLinkID: link, OutKey: key}
		verifAssert(rw.Initialize() == nil, "C09/P/init-ok")
		r, w = rw.Reader, rw.Writer
	default:
		var err error
		r, err = NewReader(ReaderConf{Reader: t, DialectRW: d, InKey: inKey})
		verifAssert(err == nil, "C09/P/init-ok")
		w, err = NewWriter(WriterConf{Writer: t, DialectRW: d, OutVersion: ver, OutSystemID: sys,
			OutComponentID: comp, OutSignatureLinkID: link, OutKey: key})
		verifAssert(err == nil, "C09/P/init-ok")
	}
	verifAssert(r != nil && w != nil, "C09/P/reader-and-writer-present")
	verifAssert(r.DialectRW == d && r.InKey == inKey && r.BufByteReader != nil, "C09/P/reader-has-the-dialect-and-incoming-key")
	verifAssert(w.DialectRW == d && w.OutVersion == ver && w.OutSystemID == sys, "C09/P/writer-has-the-dialect-version-and-system-id")
	verifAssert(w.OutComponentID == wantComp, "C09/P/writer-component-id-or-1-when-unset")
	verifAssert(w.OutSignatureLinkID == link && w.OutKey == key, "C09/P/writer-has-the-link-id-and-outgoing-key")
	verifReach("C09/P")
}

// C09, the deprecated message path of frame.Writer without a key: one WriteMessage from an arbitrary counter state is
// the spec frame of the configured version (version 0 = unset means 2), with the configured ids (component 1 when
// unset), compatibility flags zero, the counter's sequence number and a correct checksum; the counter advances by one.
func verifHarness_C09_framewriter_message(version int, shape int) {
	sys, comp, s := verifNondetU8(), verifNondetU8(), verifNondetU8()
	rec := &verifRecWriter{}
	w := &Writer{ByteWriter: rec, DialectRW: verifDialectRW(), OutVersion: WriterOutVersion(version), OutSystemID: sys, OutComponentID: comp}
	verifAssert(w.Initialize() == nil, "C09/FW/init")
	w.nextSeqNumber = s
	msg, full, spec := VerifMsg(shape, 2)
	verifAssert(w.WriteMessage(msg) == nil, "C09/FW/write-ok")
	if comp == 0 {
		comp = 1
	}
	var exp []byte
	if version == 1 {
		payload := full[:spec.SizeNormal()]
		ck := verifSpecChecksumV1(s, sys, comp, byte(spec.ID()), payload, spec.CRCExtra())
		exp = verifSpecV1(s, sys, comp, byte(spec.ID()), payload, ck)
	} else {
		payload := VerifTruncate(full)
		ck := verifSpecChecksumV2(0, 0, s, sys, comp, spec.ID(), payload, spec.CRCExtra())
		exp = verifSpecV2(0, 0, s, sys, comp, spec.ID(), payload, ck, false, 0, 0, nil)
	}
	verifAssert(rec.calls == 1, "C09/FW/one-frame-one-write")
	verifAssert(verifEqBytes(rec.buf, exp), "C09/FW/wire-is-spec-frame")
	verifAssert(w.nextSeqNumber == s+1, "C09/FW/sequence-advances-by-one-mod-256")
	verifReach("C09/FW")
}
