package frame

// read/write transport for the constructor harness
type verifBothRW struct {
	verifRecWriter
	verifChunkReader
}

// C09/C06, configuration plumbing of the frame package: what NewReadWriter / NewReader / NewWriter (and
// ReadWriter.Initialize, which channels use) are given is what the reader and the writer end up with: dialect,
// incoming key, version, system id, component id (1 when unset), link id and outgoing key.
func verifHarness_C09_frame_conf(via int) {
	sys, comp, link := verifNondetU8(), verifNondetU8(), verifNondetU8()
	ver := WriterOutVersion(verifNondetRange(1, 2))
	var key *V2Key
	if verifNondetBool() {
		key = new(V2Key)
	}
	inKey := new(V2Key)
	d := verifDialectRW()
	t := &verifBothRW{}
	wantComp := comp
	if comp == 0 {
		wantComp = 1
	}
	var r *Reader
	var w *Writer
	switch via {
	case 0:
		rw, err := NewReadWriter(ReadWriterConf{ReadWriter: t, DialectRW: d, InKey: inKey, OutVersion: ver, OutSystemID: sys,
			OutComponentID: comp, OutSignatureLinkID: link, OutKey: key})
		verifAssert(err == nil, "C09/P/init-ok")
		r, w = rw.Reader, rw.Writer
	case 1:
		rw := &ReadWriter{ByteReadWriter: t, DialectRW: d, InKey: inKey, OutVersion: ver, OutSystemID: sys,
			OutComponentID: comp, OutSignatureLinkID: link, OutKey: key}
		verifAssert(rw.Initialize() == nil, "C09/P/init-ok")
		r, w = rw.Reader, rw.Writer
	default:
		var err error
		r, err = NewReader(ReaderConf{Reader: t, DialectRW: d, InKey: inKey})
		verifAssert(err == nil, "C09/P/init-ok")
		w, err = NewWriter(WriterConf{Writer: t, DialectRW: d, OutVersion: ver, OutSystemID: sys,
			OutComponentID: comp, OutSignatureLinkID: link, OutKey: key})
		verifAssert(err == nil, "C09/P/init-ok")
	}
	verifAssert(r != nil && w != nil, "C09/P/reader-and-writer-present")
	verifAssert(r.DialectRW == d && r.InKey == inKey && r.BufByteReader != nil, "C09/P/reader-has-the-dialect-and-incoming-key")
	verifAssert(w.DialectRW == d && w.OutVersion == ver && w.OutSystemID == sys, "C09/P/writer-has-the-dialect-version-and-system-id")
	verifAssert(w.OutComponentID == wantComp, "C09/P/writer-component-id-or-1-when-unset")
	verifAssert(w.OutSignatureLinkID == link && w.OutKey == key, "C09/P/writer-has-the-link-id-and-outgoing-key")
	verifReach("C09/P")
}
