package frame

import (
	"errors"
	"io"

	"github.com/bluenviron/gomavlib/v3/pkg/message"
)

var verifErrInjected = errors.New("verif: injected transport error")

// recording io.Writer with optional failure at the failAt-th call (1-based; 0 = never)
type verifRecWriter struct {
	calls    int
	buf      []byte
	failAt   int
	failFrom int // every call from this one on fails (0 = never)
	failFull bool // a failing call reports the full byte count together with the error (legal for an io.Writer)
}

func (w *verifRecWriter) Write(p []byte) (int, error) {
	w.calls++
	if w.calls == w.failAt || (w.failFrom > 0 && w.calls >= w.failFrom) {
		if w.failFull {
			return len(p), verifErrInjected
		}
		return 0, verifErrInjected
	}
	w.buf = append(w.buf, p...)
	return len(p), nil
}

// chunked io.Reader: hands out data in chunks of the given sizes (then all the rest);
// after the data it returns err if set, else io.EOF. Never returns (0, nil).
type verifChunkReader struct {
	data   []byte
	pos    int
	chunks []int
	ci     int
	err    error
	drawn  int
	// the Read that delivers the last bytes reports the end of the stream in the same call (n > 0 together with an
	// error: legal for an io.Reader)
	endWithData bool
}

func (r *verifChunkReader) Read(p []byte) (int, error) {
	if r.pos >= len(r.data) {
		if r.err != nil {
			return 0, r.err
		}
		return 0, io.EOF
	}
	n := len(r.data) - r.pos
	if r.ci < len(r.chunks) {
		if r.chunks[r.ci] < n {
			n = r.chunks[r.ci]
		}
		r.ci++
	}
	if n > len(p) {
		n = len(p)
	}
	copy(p, r.data[r.pos:r.pos+n])
	r.pos += n
	r.drawn += n
	if r.endWithData && r.pos >= len(r.data) {
		if r.err != nil {
			return n, r.err
		}
		return n, io.EOF
	}
	return n, nil
}

// ---- spec serializer, written from the MAVLink serialization document, independent of marshalTo

func verifSpecV1(seq, sys, comp byte, id byte, payload []byte, ck uint16) []byte {
	out := make([]byte, 0, 8+len(payload))
	out = append(out, 0xFE, byte(len(payload)), seq, sys, comp, id)
	out = append(out, payload...)
	out = append(out, byte(ck&0xFF), byte(ck>>8))
	return out
}

func verifSpecV2(incompat, compat, seq, sys, comp byte, id uint32, payload []byte, ck uint16,
	signed bool, link byte, ts uint64, sig []byte,
) []byte {
	out := make([]byte, 0, 25+len(payload))
	out = append(out, 0xFD, byte(len(payload)), incompat, compat, seq, sys, comp,
		byte(id&0xFF), byte((id>>8)&0xFF), byte((id>>16)&0xFF))
	out = append(out, payload...)
	out = append(out, byte(ck&0xFF), byte(ck>>8))
	if signed {
		out = append(out, link)
		for i := 0; i < 6; i++ {
			out = append(out, byte((ts>>(8*uint(i)))&0xFF))
		}
		out = append(out, sig...)
	}
	return out
}

func verifRawOf(m message.Message) *message.MessageRaw {
	r, ok := m.(*message.MessageRaw)
	if !ok {
		return nil
	}
	return r
}

func verifIsReadError(err error) bool {
	_, ok := err.(ReadError)
	return ok
}
