package frame

import (
	"crypto/sha256"
	"io"

	"github.com/bluenviron/gomavlib/v3/pkg/message"
)

// spec: first 48 bits of SHA-256(key | 0xFD len incompat compat seq sys comp id24 | payload | crc16 LE | link | ts48 LE)
func verifSpecSignature(key []byte, incompat, compat, seq, sys, comp byte, id uint32, payload []byte, ck uint16, link byte, ts uint64) []byte {
	buf := make([]byte, 0, 64+len(payload))
	buf = append(buf, key...)
	buf = append(buf, 0xFD, byte(len(payload)), incompat, compat, seq, sys, comp, byte(id&0xFF), byte((id>>8)&0xFF), byte((id>>16)&0xFF))
	buf = append(buf, payload...)
	buf = append(buf, byte(ck&0xFF), byte(ck>>8), link)
	for i := 0; i < 6; i++ {
		buf = append(buf, byte((ts>>(8*uint(i)))&0xFF))
	}
	d := sha256.Sum256(buf)
	return d[:6]
}

// (a) GenerateSignature feeds exactly the spec byte stream and keeps the first six digest bytes.
func verifHarness_C06_formula(n int) {
	keyb := verifNondetBytes(32)
	key := new(V2Key)
	copy(key[:], keyb)
	incompat, compat, seq, sys, comp := verifNondetU8(), verifNondetU8(), verifNondetU8(), verifNondetU8(), verifNondetU8()
	id := verifNondetU32()
	verifAssume(id < 1<<24)
	ck := verifNondetU16()
	link := verifNondetU8()
	ts := verifNondetU64()
	verifAssume(ts < 1<<48)
	payload := verifNondetBytes(n)
	f := V2Frame{IncompatibilityFlag: incompat, CompatibilityFlag: compat, SequenceNumber: seq, SystemID: sys, ComponentID: comp,
		Message: &message.MessageRaw{ID: id, Payload: payload}, Checksum: ck, SignatureLinkID: link, SignatureTimestamp: ts}
	sig := f.GenerateSignature(key)
	exp := verifSpecSignature(keyb, incompat, compat, seq, sys, comp, id, payload, ck, link, ts)
	verifObserveBytes("C06/a/sig", sig[:])
	verifAssert(verifEqBytes(sig[:], exp), "C06/a/signature-formula")
	verifReach("C06/a")
}

// (b) keyed reader gate. kind 0: v1 frame; 1: unsigned v2; 2: signed v2 carrying the spec signature;
// 3: signed v2 carrying any six bytes other than the spec signature.
func verifHarness_C06_gate(kind int, n int) {
	keyb := verifNondetBytes(32)
	key := new(V2Key)
	copy(key[:], keyb)
	compat, seq, sys, comp := verifNondetU8(), verifNondetU8(), verifNondetU8(), verifNondetU8()
	id := verifNondetU32()
	ck := verifNondetU16()
	payload := verifNondetBytes(n)
	var wire []byte
	var link byte
	var ts uint64
	var sigb []byte
	switch kind {
	case 0:
		verifAssume(id <= 0xFF)
		wire = verifSpecV1(seq, sys, comp, byte(id), payload, ck)
	case 1:
		verifAssume(id < 1<<24)
		wire = verifSpecV2(0, compat, seq, sys, comp, id, payload, ck, false, 0, 0, nil)
	default:
		verifAssume(id < 1<<24)
		link = verifNondetU8()
		ts = verifNondetU64()
		verifAssume(ts < 1<<48)
		exp := verifSpecSignature(keyb, 1, compat, seq, sys, comp, id, payload, ck, link, ts)
		if kind == 2 {
			sigb = exp
		} else {
			// any six bytes other than the spec signature, expressed as a non-zero difference so that a
			// counterexample replays against the real SHA-256
			delta := verifNondetBytes(6)
			verifAssume(verifNot(verifEqBytes(delta, make([]byte, 6))))
			sigb = make([]byte, 6)
			for i := range sigb {
				sigb[i] = exp[i] ^ delta[i]
			}
		}
		wire = verifSpecV2(1, compat, seq, sys, comp, id, payload, ck, true, link, ts, sigb)
	}
	rd := &Reader{ByteReader: &verifChunkReader{data: wire}, InKey: key}
	verifAssert(rd.Initialize() == nil, "C06/b/init")
	fr, err := rd.Read()
	verifObserveBool("C06/b/delivered", err == nil)
	if kind < 2 {
		verifAssert(err != nil, "C06/b/unsigned-or-v1-refused")
		verifAssert(fr == nil, "C06/b/refused-no-frame")
		verifAssert(verifIsReadError(err), "C06/b/refused-is-parse-error")
	} else {
		// fresh reader: no newest timestamp yet, so the replay window (C07) cannot refuse
		if kind == 2 {
			verifAssert(err == nil, "C06/b/correctly-signed-delivered")
		} else {
			verifAssert(err != nil, "C06/b/wrong-signature-refused")
		}
		if err != nil {
			verifAssert(fr == nil, "C06/b/refused-no-frame")
			verifAssert(verifIsReadError(err), "C06/b/refused-is-parse-error")
		} else {
			g, ok := fr.(*V2Frame)
			verifAssert(ok && g.Signature != nil && g.IsSigned(), "C06/b/delivered-is-signed-v2")
			verifAssert(verifEqBytes(g.Signature[:], sigb), "C06/b/delivered-signature-bytes")
		}
	}
	// delivered or refused, the frame is consumed whole: nothing of it is left to be rescanned as input
	_, err2 := rd.Read()
	verifAssert(err2 == io.EOF, "C06/b/frame-consumed-whole")
	verifReach("C06/b")
}

// (e) the configured key is a value: NewV2Key copies the first 32 bytes of its argument (zero padded), and what
// the caller does with the slice afterwards does not change the key a reader or writer was configured with.
func verifHarness_C06_key(n int) {
	in := verifNondetBytes(n)
	want := make([]byte, 32)
	copy(want, in)
	key := NewV2Key(in)
	verifAssert(verifEqBytes(key[:], want), "C06/e/key-is-first-32-bytes-zero-padded")
	for i := range in {
		in[i] ^= 0xFF
	}
	verifAssert(verifEqBytes(key[:], want), "C06/e/key-independent-of-caller-slice")
	verifReach("C06/e")
}

// (f) the signature check is made for every frame: after a correctly signed frame has been accepted, a second frame
// that carries the very same signature block (link id, timestamp, signature) but differs somewhere in its header,
// payload or checksum is refused all the same.
func verifHarness_C06_replayed_trailer(n int) {
	keyb := verifNondetBytes(32)
	key := new(V2Key)
	copy(key[:], keyb)
	compat, seq, sys, comp, link := verifNondetU8(), verifNondetU8(), verifNondetU8(), verifNondetU8(), verifNondetU8()
	id := verifNondetU32()
	verifAssume(id < 1<<24)
	ck := verifNondetU16()
	ts := verifNondetU64()
	verifAssume(ts < 1<<48)
	payload := verifNondetBytes(n)
	sig := verifSpecSignature(keyb, 1, compat, seq, sys, comp, id, payload, ck, link, ts)
	good := verifSpecV2(1, compat, seq, sys, comp, id, payload, ck, true, link, ts, sig)
	// the second frame: same trailer, a different sequence number / system id / checksum / first payload byte
	d := verifNondetBytes(4)
	verifAssume(verifNot(verifEqBytes(d, make([]byte, 4))))
	p2 := append([]byte{}, payload...)
	if n > 0 {
		p2[0] ^= d[3]
	} else {
		verifAssume(verifNot(verifEqBytes(d[:3], make([]byte, 3))))
	}
	forged := verifSpecV2(1, compat, seq^d[0], sys^d[1], comp, id, p2, ck^uint16(d[2]), true, link, ts, sig)
	// (the forged frame is not the spec-signed one: its own spec signature differs, modulo the hash)
	sig2 := verifSpecSignature(keyb, 1, compat, seq^d[0], sys^d[1], comp, id, p2, ck^uint16(d[2]), link, ts)
	verifAssume(verifNot(verifEqBytes(sig2, sig)))
	rd := &Reader{ByteReader: &verifChunkReader{data: append(append([]byte{}, good...), forged...)}, InKey: key}
	verifAssert(rd.Initialize() == nil, "C06/f/init")
	_, err := rd.Read()
	verifAssert(err == nil, "C06/f/correctly-signed-delivered")
	fr, err := rd.Read()
	verifAssert(err != nil && fr == nil, "C06/f/altered-frame-with-a-copied-signature-block-refused")
	verifReach("C06/f")
}
