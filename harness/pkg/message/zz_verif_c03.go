package message

// three-field struct used to reach the sort call of Initialize; the executor then replaces the three
// descriptors by symbolic ones and examines the real comparator closure (option sort_lemma)
type MessageVerifTriple struct {
	A uint8
	B uint16
	C uint32 `mavext:"true"`
}

func (*MessageVerifTriple) GetID() uint32 { return 1 }

func verifHarness_C03_order() {
	rw := &ReadWriter{Message: &MessageVerifTriple{}}
	_ = rw.Initialize()
}
