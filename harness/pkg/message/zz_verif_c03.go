package message

import "github.com/bluenviron/gomavlib/v3/pkg/message/zzverifalt"

// three-field struct used to reach the sort call of Initialize; the executor then replaces the three
// descriptors by symbolic ones and examines the real comparator closure (option sort_lemma)
type MessageVerifTriple struct {
	A uint8
	B uint16
	C uint32 `mavext:"true"`
}

func (*MessageVerifTriple) GetID() uint32 { return 1 }

func verifHarness_C03_order() {
	rw := &ReadWriter{Message: &MessageVerifTriple{}}
	_ = rw.Initialize()
}

// a user-defined message struct the library accepts, exercising the corners the shipped dialects do not have:
// one-element arrays, a single char, a char[1], a custom wire name, a signed enum width, an extension array
type VerifE uint64

type MessageVerifOddities struct {
	One    [1]uint8
	Ch     string
	S1     string `mavlen:"1"`
	W      uint16
	MyName uint32 `mavname:"odd_NAME"`
	E      VerifE `mavenum:"int32"`
	P      uint64 `mavenum:"uint8"` // an enum carried by the plain uint64 type
	Ext    [1]uint16 `mavext:"true"`
}

func (*MessageVerifOddities) GetID() uint32 { return 9 }

func verifLE(v uint64, n int) []byte {
	out := make([]byte, n)
	for i := 0; i < n; i++ {
		out[i] = byte((v >> (8 * uint(i))) & 0xFF)
	}
	return out
}

// U: layout, sizes and CRC_EXTRA of the user-defined struct equal the values derived by hand from the MAVLink rules
func verifHarness_C03_user(v2 int) {
	rw := &ReadWriter{Message: &MessageVerifOddities{}}
	verifAssert(rw.Initialize() == nil, "C03/U/accepted")
	// CRC_EXTRA seed: NAME, then base fields in wire order "type name " (+ length byte for arrays only)
	seed := []byte("VERIF_ODDITIES uint32_t odd_NAME int32_t e uint16_t w uint8_t one ")
	seed = append(seed, 1)
	seed = append(seed, []byte("char ch char s1 ")...)
	seed = append(seed, 1)
	seed = append(seed, []byte("uint8_t p ")...)
	c := verifCrcFold(0xFFFF, seed)
	verifAssert(rw.CRCExtra() == byte(c&0xFF)^byte(c>>8), "C03/U/crc-extra-is-spec-value")
	one, w, name, e, ext := verifNondetU8(), verifNondetU16(), verifNondetU32(), verifNondetU64(), verifNondetU16()
	chb, s1b := verifNondetU8(), verifNondetU8()
	pv := verifNondetU64()
	verifAssume(chb != 0 && s1b != 0 && ext != 0)
	m := &MessageVerifOddities{One: [1]uint8{one}, Ch: string([]byte{chb}), S1: string([]byte{s1b}), W: w, MyName: name,
		E: VerifE(e), P: pv, Ext: [1]uint16{ext}}
	var exp []byte
	exp = append(exp, verifLE(uint64(name), 4)...)
	exp = append(exp, verifLE(e&0xFFFFFFFF, 4)...)
	exp = append(exp, verifLE(uint64(w), 2)...)
	exp = append(exp, one, chb, s1b, byte(pv))
	if v2 == 1 {
		exp = append(exp, verifLE(uint64(ext), 2)...)
		// ext != 0 is assumed, so at most the high byte of ext is stripped
		if exp[len(exp)-1] == 0 {
			exp = exp[:len(exp)-1]
		}
	}
	raw := rw.Write(m, v2 == 1)
	verifObserveBytes("C03/U/payload", raw.Payload)
	verifAssert(verifEqBytes(raw.Payload, exp), "C03/U/payload-is-spec-layout")
	// and it reads back (enum masked to its wire width)
	back, err := rw.Read(raw, v2 == 1)
	verifAssert(err == nil, "C03/U/reads-back")
	if err == nil {
		g := back.(*MessageVerifOddities)
		verifAssert(g.P == pv&0xFF && g.W == w && g.MyName == name && g.One[0] == one && uint64(g.Ext[0]) == verifIteU64(v2 == 1, uint64(ext), 0), "C03/U/read-back-values")
	}
	verifReach("C03/U")
}

// N: two message structs with the same Go name in different packages are different messages: each gets the layout,
// the sizes and the CRC_EXTRA of its own fields, in whichever order they are set up, and setting one up does not
// change the other (order 0: the pkg/message struct first; 1: the other one first).
func verifHarness_C03_same_name(order int) {
	a := &ReadWriter{Message: &MessageVerifOddities{}}
	b := &ReadWriter{Message: &zzverifalt.MessageVerifOddities{}}
	if order == 0 {
		verifAssert(a.Initialize() == nil, "C03/N/accepted")
		verifAssert(b.Initialize() == nil, "C03/N/accepted")
	} else {
		verifAssert(b.Initialize() == nil, "C03/N/accepted")
		verifAssert(a.Initialize() == nil, "C03/N/accepted")
	}
	cb := verifCrcFold(0xFFFF, []byte("VERIF_ODDITIES uint16_t y uint8_t x "))
	verifAssert(b.CRCExtra() == byte(cb&0xFF)^byte(cb>>8), "C03/N/crc-extra-of-its-own-fields")
	verifAssert(len(a.Write(&MessageVerifOddities{}, false).Payload) == 14, "C03/N/size-of-its-own-fields")
	verifAssert(len(a.Write(&MessageVerifOddities{Ext: [1]uint16{0x0101}}, true).Payload) == 16, "C03/N/extended-size-of-its-own-fields")
	x, y := verifNondetU8(), verifNondetU16()
	raw := b.Write(&zzverifalt.MessageVerifOddities{X: x, Y: y}, false)
	verifAssert(verifEqBytes(raw.Payload, []byte{byte(y), byte(y >> 8), x}), "C03/N/payload-of-its-own-fields")
	back, err := b.Read(raw, false)
	verifAssert(err == nil, "C03/N/reads-back")
	if err == nil {
		g, ok := back.(*zzverifalt.MessageVerifOddities)
		verifAssert(ok && g.X == x && g.Y == y, "C03/N/read-back-values")
	}
	// a third set-up of the first type gives the same answers as its first one
	a2 := &ReadWriter{Message: &MessageVerifOddities{}}
	verifAssert(a2.Initialize() == nil, "C03/N/accepted")
	verifAssert(a2.CRCExtra() == a.CRCExtra() && len(a2.Write(&MessageVerifOddities{}, false).Payload) == 14, "C03/N/set-up-repeatable")
	verifReach("C03/N")
}
