// Package zzverifalt holds a message struct that has the SAME Go name as one of the harness structs of
// pkg/message and a different layout (as a user's private MessageXxx next to a shipped one).
package zzverifalt

// MessageVerifOddities here is a single uint8 and a uint16.
type MessageVerifOddities struct {
	X uint8
	Y uint16
}

// GetID implements message.Message.
func (*MessageVerifOddities) GetID() uint32 { return 9 }
