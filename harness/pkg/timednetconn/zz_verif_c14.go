package timednetconn

import (
	"errors"
	"fmt"
	"io"
	"net"
	"os"
	"time"
)

var verifErrDeadline = errors.New("verif: cannot set deadline")

// recording net.Conn
type verifConn struct {
	events    []int // 0 SetReadDeadline, 1 SetWriteDeadline, 2 Read, 3 Write, 4 SetDeadline, 5 Close
	deadlines []time.Time
	failSet   bool
}

func (c *verifConn) Read(p []byte) (int, error)  { c.events = append(c.events, 2); return 0, nil }
func (c *verifConn) Write(p []byte) (int, error) { c.events = append(c.events, 3); return len(p), nil }
func (c *verifConn) Close() error                { c.events = append(c.events, 5); return nil }
func (c *verifConn) LocalAddr() net.Addr         { return nil }
func (c *verifConn) RemoteAddr() net.Addr        { return nil }
func (c *verifConn) SetDeadline(t time.Time) error {
	c.events = append(c.events, 4)
	return nil
}

func (c *verifConn) SetReadDeadline(t time.Time) error {
	c.events = append(c.events, 0)
	c.deadlines = append(c.deadlines, t)
	if c.failSet {
		return verifErrDeadline
	}
	return nil
}

func (c *verifConn) SetWriteDeadline(t time.Time) error {
	c.events = append(c.events, 1)
	c.deadlines = append(c.deadlines, t)
	if c.failSet {
		return verifErrDeadline
	}
	return nil
}

// exported view for harnesses of the root package
func VerifTimeouts(x io.ReadWriteCloser) (time.Duration, time.Duration, net.Conn, bool) {
	c, ok := x.(*conn)
	if !ok {
		return 0, 0, nil, false
	}
	return c.readTimeout, c.writeTimeout, c.wrapped, true
}

// T1: k calls (k1,k2,k3: 0 = Read, 1 = Write) on a wrapped connection with arbitrary timeouts and an arbitrary
// non-decreasing clock: every wrapped call is immediately preceded by its own deadline, armed from the clock
// reading taken for that call; a failing deadline short-circuits the call.
func verifHarness_C14_deadlines(k1 int, k2 int, k3 int, fail int) {
	defer verifPatchClock()()
	rt, wt := verifNondetI64(), verifNondetI64()
	verifAssume(rt >= 0 && rt < 1<<50 && wt >= 0 && wt < 1<<50)
	fake := &verifConn{failSet: fail == 1}
	c := New(time.Duration(rt), time.Duration(wt), fake)
	kinds := []int{k1, k2, k3}
	buf := make([]byte, 4)
	for i := 0; i < 3; i++ {
		before := len(fake.events)
		r0 := verifClockReadings()
		var err error
		if kinds[i] == 0 {
			_, err = c.Read(buf)
		} else {
			_, err = c.Write(buf)
		}
		r1 := verifClockReadings()
		// the deadline is armed afresh: from a clock reading taken during this very call
		verifAssert(r1 > r0, "C14/T1/clock-read-during-the-call")
		armedFrom := func(d time.Time, timeout int64) bool {
			ok := false
			for j := r0; j < r1; j++ {
				ok = verifOr(ok, d.Equal(verifClockAt(verifClockReadingAt(j)).Add(time.Duration(timeout))))
			}
			return ok
		}
		if fail == 1 {
			verifAssert(err == verifErrDeadline, "C14/T1/deadline-error-reported")
			verifAssert(len(fake.events) == before+1, "C14/T1/deadline-error-short-circuits-the-call")
			continue
		}
		verifAssert(err == nil, "C14/T1/call-ok")
		verifAssert(len(fake.events) == before+2, "C14/T1/exactly-deadline-then-call")
		if len(fake.events) != before+2 {
			continue
		}
		if kinds[i] == 0 {
			verifAssert(fake.events[before] == 0 && fake.events[before+1] == 2, "C14/T1/read-preceded-by-read-deadline")
			verifAssert(armedFrom(fake.deadlines[i], rt), "C14/T1/read-deadline-is-now-plus-idle-timeout")
		} else {
			verifAssert(fake.events[before] == 1 && fake.events[before+1] == 3, "C14/T1/write-preceded-by-write-deadline")
			verifAssert(armedFrom(fake.deadlines[i], wt), "C14/T1/write-deadline-is-now-plus-write-timeout")
		}
	}
	verifAssert(c.Close() == nil && fake.events[len(fake.events)-1] == 5, "C14/T1/close-forwarded")
	verifReach("C14/T1")
}

var verifErrIO = errors.New("verif: transport error")

// connection whose Read and Write return a scripted outcome
type verifOutcomeConn struct {
	verifConn
	n   int
	err error
}

func (c *verifOutcomeConn) Read(p []byte) (int, error)  { return c.n, c.err }
func (c *verifOutcomeConn) Write(p []byte) (int, error) { return c.n, c.err }

// T1p: the outcome of the wrapped call is the outcome of the call, whatever it is: an arbitrary byte count together
// with no error, a generic transport error, the deadline error itself or a deadline error wrapped by the transport.
// A write that runs into its deadline is a failed write, not a silent drop. kind 0 = Read, 1 = Write.
func verifHarness_C14_outcome(kind int, errKind int) {
	defer verifPatchClock()()
	rt, wt := verifNondetI64(), verifNondetI64()
	verifAssume(rt >= 0 && rt < 1<<50 && wt >= 0 && wt < 1<<50)
	n := verifNondetRange(0, 8)
	var want error
	switch errKind {
	case 1:
		want = verifErrIO
	case 2:
		want = os.ErrDeadlineExceeded
	case 3:
		want = fmt.Errorf("write tcp: %w", os.ErrDeadlineExceeded)
	}
	fake := &verifOutcomeConn{n: n, err: want}
	c := New(time.Duration(rt), time.Duration(wt), fake)
	buf := make([]byte, 8)
	var got int
	var err error
	if kind == 0 {
		got, err = c.Read(buf)
	} else {
		got, err = c.Write(buf)
	}
	verifAssert(err == want, "C14/T1p/error-of-the-wrapped-call-is-reported-unchanged")
	verifAssert(got == n, "C14/T1p/byte-count-of-the-wrapped-call-is-reported-unchanged")
	verifReach("C14/T1p")
}
