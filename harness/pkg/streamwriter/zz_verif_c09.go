package streamwriter

import (
	"time"

	"github.com/bluenviron/gomavlib/v3/pkg/frame"
	"github.com/bluenviron/gomavlib/v3/pkg/message"
)

func verifNondetKey() (*frame.V2Key, []byte) {
	kb := verifNondetBytes(32)
	key := new(frame.V2Key)
	copy(key[:], kb)
	return key, kb
}

// expected wire of an originated frame, from the spec, given everything the link is configured with
func verifExpectedWire(version int, sys, comp, seq byte, spec frame.VerifMsgSpec, full []byte,
	keyed bool, keyb []byte, link byte, clockNs uint64,
) []byte {
	if comp == 0 {
		comp = 1
	}
	if version == 1 {
		payload := full[:spec.SizeNormal()]
		ck := frame.VerifSpecChecksumV1(seq, sys, comp, byte(spec.ID()), payload, spec.CRCExtra())
		return frame.VerifSpecV1(seq, sys, comp, byte(spec.ID()), payload, ck)
	}
	payload := frame.VerifTruncate(full)
	var incompat byte
	if keyed {
		incompat = 1
	}
	ck := frame.VerifSpecChecksumV2(incompat, 0, seq, sys, comp, spec.ID(), payload, spec.CRCExtra())
	if !keyed {
		return frame.VerifSpecV2(0, 0, seq, sys, comp, spec.ID(), payload, ck, false, 0, 0, nil)
	}
	ts := clockNs / 10000
	sig := frame.VerifSpecSignature(keyb, 1, 0, seq, sys, comp, spec.ID(), payload, ck, link, ts)
	return frame.VerifSpecV2(1, 0, seq, sys, comp, spec.ID(), payload, ck, true, link, ts, sig)
}

// S: one write from an arbitrary sequence-counter state. version 1/2, keyed 0/1 (v2 only), shape 0..3,
// raw 1: the message is handed over already encoded (MessageRaw with a dialect id).
func verifHarness_C09_step(version int, keyed int, shape int, strlen int, raw int) {
	defer verifPatchClock()()
	rec := &frame.VerifRecWriter{}
	fw := &frame.Writer{ByteWriter: rec, DialectRW: frame.VerifDialectRW()}
	verifAssert(fw.Initialize() == nil, "C09/S/frame-writer-init")
	sys, comp, link, s := verifNondetU8(), verifNondetU8(), verifNondetU8(), verifNondetU8()
	verifAssume(sys >= 1)
	w := &Writer{FrameWriter: fw, Version: Version(version), SystemID: sys, ComponentID: comp, SignatureLinkID: link}
	var keyb []byte
	if keyed == 1 {
		w.Key, keyb = verifNondetKey()
	}
	verifAssert(w.Initialize() == nil, "C09/S/init-accepts-valid-config")
	w.nextSeqNumber = s
	msg, full, spec := frame.VerifMsg(shape, strlen)
	if raw == 1 {
		// already-encoded form of the same message
		if version == 1 {
			msg = &message.MessageRaw{ID: spec.ID(), Payload: append([]byte(nil), full[:spec.SizeNormal()]...)}
		} else {
			msg = &message.MessageRaw{ID: spec.ID(), Payload: append([]byte(nil), frame.VerifTruncate(full)...)}
		}
	}
	err := w.Write(msg)
	verifAssert(err == nil, "C09/S/write-ok")
	verifAssert(rec.Calls() == 1, "C09/S/one-frame-one-write")
	var clock uint64
	if keyed == 1 {
		clock = verifClockLast()
	}
	exp := verifExpectedWire(version, sys, comp, s, spec, full, keyed == 1, keyb, link, clock)
	verifAssert(verifEqBytes(rec.Buf(), exp), "C09/S/wire-is-spec-frame")
	verifObserveBytes("C09/S/wire", rec.Buf())
	verifAssert(w.nextSeqNumber == s+1, "C09/S/sequence-advances-by-one-mod-256")
	verifReach("C09/S")
}

// M: three consecutive writes of mixed shapes from a fresh writer carry sequence numbers 0,1,2 and
// non-decreasing signature timestamps.
func verifHarness_C09_three(version int, keyed int) {
	defer verifPatchClock()()
	rec := &frame.VerifRecWriter{}
	fw := &frame.Writer{ByteWriter: rec, DialectRW: frame.VerifDialectRW()}
	verifAssert(fw.Initialize() == nil, "C09/M/frame-writer-init")
	sys, comp, link := verifNondetU8(), verifNondetU8(), verifNondetU8()
	verifAssume(sys >= 1)
	w := &Writer{FrameWriter: fw, Version: Version(version), SystemID: sys, ComponentID: comp, SignatureLinkID: link}
	var keyb []byte
	if keyed == 1 {
		w.Key, keyb = verifNondetKey()
	}
	verifAssert(w.Initialize() == nil, "C09/M/init")
	var exp []byte
	for i := 0; i < 3; i++ {
		msg, full, spec := frame.VerifMsg((i*2+1)%4, 2)
		verifAssert(w.Write(msg) == nil, "C09/M/write-ok")
		var clock uint64
		if keyed == 1 {
			clock = verifClockLast()
		}
		exp = append(exp, verifExpectedWire(version, sys, comp, byte(i), spec, full, keyed == 1, keyb, link, clock)...)
	}
	verifAssert(verifEqBytes(rec.Buf(), exp), "C09/M/three-frames-seq-0-1-2")
	verifReach("C09/M")
}

// I: Initialize refuses exactly: missing version, zero system id, key with version 1.
func verifHarness_C09_init() {
	ver := verifNondetInt()
	sys, comp := verifNondetU8(), verifNondetU8()
	keyed := verifNondetRange(0, 1)
	rec := &frame.VerifRecWriter{}
	fw := &frame.Writer{ByteWriter: rec, DialectRW: frame.VerifDialectRW()}
	w := &Writer{FrameWriter: fw, Version: Version(ver), SystemID: sys, ComponentID: comp}
	if keyed == 1 {
		w.Key, _ = verifNondetKey()
	}
	err := w.Initialize()
	refuse := verifOr(ver == 0, verifOr(sys == 0, verifAnd(keyed == 1, ver != 2)))
	verifAssert(verifIff(err != nil, refuse), "C09/I/refused-iff-invalid-config")
	if err == nil {
		verifAssert(verifImplies(comp == 0, w.ComponentID == 1), "C09/I/component-defaults-to-1")
		verifAssert(verifImplies(comp != 0, w.ComponentID == comp), "C09/I/component-kept")
	}
	verifReach("C09/I")
}

// V: version 1 refuses message ids above 255 and emits nothing: for a dialect message with any id above 255
// (decoded or already encoded), and for ids outside the dialect.
func verifHarness_C09_v1_big_id(raw int) {
	id := verifNondetU32()
	verifAssume(id > 255)
	frame.VerifBigID = id
	rec := &frame.VerifRecWriter{}
	fw := &frame.Writer{ByteWriter: rec, DialectRW: frame.VerifDialectWithBigRW()}
	verifAssert(fw.Initialize() == nil, "C09/V/frame-writer-init")
	w := &Writer{FrameWriter: fw, Version: V1, SystemID: 1}
	verifAssert(w.Initialize() == nil, "C09/V/init")
	var msg message.Message = &frame.MessageVerifBigID{V: verifNondetU8()}
	if raw == 1 {
		msg = &message.MessageRaw{ID: id, Payload: verifNondetBytes(1)}
	}
	if raw == 2 {
		other := verifNondetU32()
		verifAssume(other > 255)
		msg = &message.MessageRaw{ID: other, Payload: verifNondetBytes(2)}
	}
	s := verifNondetU8()
	w.nextSeqNumber = s
	err := w.Write(msg)
	verifAssert(err != nil, "C09/V/refused")
	verifAssert(rec.Calls() == 0, "C09/V/nothing-emitted")
	verifAssert(w.nextSeqNumber == s, "C09/V/refused-write-consumes-no-sequence-number")
	verifReach("C09/V")
}

// G: gapless over accepted writes. From an arbitrary counter state: a refused write (kind 0: nil message, 1: a message
// outside the dialect, 2: the transport fails) and then an accepted one; the
// accepted frame carries the number the counter had before the refused write (kind 2: the failed frame may have
// reached the wire in part, nothing is claimed about the counter).
func verifHarness_C09_gapless(version int, kind int) {
	rec := &frame.VerifRecWriter{}
	fw := &frame.Writer{ByteWriter: rec, DialectRW: frame.VerifDialectRW()}
	verifAssert(fw.Initialize() == nil, "C09/G/frame-writer-init")
	sys, s := verifNondetU8(), verifNondetU8()
	verifAssume(sys >= 1)
	w := &Writer{FrameWriter: fw, Version: Version(version), SystemID: sys}
	verifAssert(w.Initialize() == nil, "C09/G/init")
	w.nextSeqNumber = s
	var bad message.Message
	switch kind {
	case 1:
		id := verifNondetU32()
		verifAssume(id >= 210 && id <= 255)
		bad = &message.MessageRaw{ID: id, Payload: verifNondetBytes(1)}
	case 2:
		rec.SetFailAt(1)
		bad = &message.MessageRaw{ID: 200, Payload: verifNondetBytes(3)}
	}
	err := w.Write(bad)
	verifAssert(err != nil, "C09/G/refused")
	if kind != 2 {
		verifAssert(rec.Calls() == 0, "C09/G/nothing-emitted")
		verifAssert(w.nextSeqNumber == s, "C09/G/refused-write-consumes-no-sequence-number")
	}
	before := len(rec.Buf())
	pre := w.nextSeqNumber
	err = w.Write(&message.MessageRaw{ID: 200, Payload: verifNondetBytes(3)})
	verifAssert(err == nil, "C09/G/next-write-accepted")
	out := rec.Buf()[before:]
	if version == 1 {
		verifAssert(len(out) == 8+3 && out[2] == pre, "C09/G/accepted-frame-carries-the-next-number")
	} else {
		verifAssert(len(out) == 12+3 && out[4] == pre, "C09/G/accepted-frame-carries-the-next-number")
	}
	verifAssert(w.nextSeqNumber == pre+1, "C09/G/sequence-advances-by-one-mod-256")
	verifReach("C09/G")
}

// C07/T: two consecutive writes on a keyed link: each timestamp is the clock reading in 10 us units since
// 2015-01-01 UTC, and the second is not smaller than the first (messages pre-encoded: no truncation forks).
func verifHarness_C07_T() {
	defer verifPatchClock()()
	rec := &frame.VerifRecWriter{}
	fw := &frame.Writer{ByteWriter: rec, DialectRW: frame.VerifDialectRW()}
	verifAssert(fw.Initialize() == nil, "C07/T/frame-writer-init")
	w := &Writer{FrameWriter: fw, Version: V2, SystemID: 1, SignatureLinkID: verifNondetU8()}
	w.Key, _ = verifNondetKey()
	verifAssert(w.Initialize() == nil, "C07/T/init")
	var tss [2]uint64
	var clocks [2]uint64
	pos := 0
	for i := 0; i < 2; i++ {
		verifAssert(w.Write(&message.MessageRaw{ID: 202, Payload: []byte{1, 2, 3}}) == nil, "C07/T/write-ok")
		clocks[i] = verifClockLast()
		wire := rec.Buf()[pos:]
		verifAssert(len(wire) == 10+3+2+13, "C07/T/frame-length")
		for j := 0; j < 6; j++ {
			tss[i] |= uint64(wire[10+3+2+1+j]) << (8 * uint(j))
		}
		verifAssert(tss[i] == clocks[i]/10000, "C07/T/timestamp-is-clock-in-10us-units")
		pos += len(wire)
	}
	verifObserveU64("C07/T/ts0", tss[0])
	verifObserveU64("C07/T/ts1", tss[1])
	verifAssert(tss[1] >= tss[0], "C07/T/timestamps-never-decrease")
	verifReach("C07/T")
}

// W: a dialect message with any 24-bit id above 255 on a version 2 link: the three id bytes and a checksum that covers
// all three (CRC_EXTRA seed "VERIF_BIG_I_D uint8_t v ")
func verifHarness_C09_wide_id(raw int) {
	id := verifNondetU32()
	verifAssume(id > 255 && id < 1<<24)
	frame.VerifBigID = id
	rec := &frame.VerifRecWriter{}
	fw := &frame.Writer{ByteWriter: rec, DialectRW: frame.VerifDialectWithBigRW()}
	verifAssert(fw.Initialize() == nil, "C09/W/frame-writer-init")
	sys, s := verifNondetU8(), verifNondetU8()
	verifAssume(sys >= 1)
	w := &Writer{FrameWriter: fw, Version: V2, SystemID: sys}
	verifAssert(w.Initialize() == nil, "C09/W/init")
	w.nextSeqNumber = s
	v := verifNondetU8()
	var msg message.Message = &frame.MessageVerifBigID{V: v}
	if raw == 1 {
		msg = &message.MessageRaw{ID: id, Payload: []byte{v}}
	}
	verifAssert(w.Write(msg) == nil, "C09/W/write-ok")
	c := verifCrcFold(0xFFFF, []byte("VERIF_BIG_I_D uint8_t v "))
	extra := byte(c&0xFF) ^ byte(c>>8)
	payload := []byte{v}
	ck := frame.VerifSpecChecksumV2(0, 0, s, sys, 1, id, payload, extra)
	exp := frame.VerifSpecV2(0, 0, s, sys, 1, id, payload, ck, false, 0, 0, nil)
	verifObserveBytes("C09/W/wire", rec.Buf())
	verifAssert(verifEqBytes(rec.Buf(), exp), "C09/W/wire-is-spec-frame-for-a-24-bit-id")
	verifReach("C09/W")
}

// R: the instant signature timestamps are counted from is 2015-01-01T00:00:00 UTC (not a local-time midnight)
func verifHarness_C07_reference() {
	want := time.Date(2015, time.January, 1, 0, 0, 0, 0, time.UTC)
	verifAssert(signatureReferenceDate == want, "C07/R/reference-date-is-2015-utc")
	verifAssert(frame.VerifSignatureReferenceDate() == want, "C07/R/frame-writer-reference-date-is-2015-utc")
	verifReach("C07/R")
}
