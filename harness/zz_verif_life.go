package gomavlib

import (
	"errors"
	"io"

	"github.com/bluenviron/gomavlib/v3/pkg/frame"
	"github.com/bluenviron/gomavlib/v3/pkg/message"
)

var verifErrRead = errors.New("verif: transport read failed")

// transport whose Read blocks until the harness makes it fail or the transport is closed, and whose Write either
// records (failing at the configured call) or blocks until the transport is closed
type verifBlockRWC struct {
	frame.VerifRecWriter
	data        []byte // delivered by the first Read, before the transport goes quiet
	wake        bool
	closedFlag  bool
	writeBlocks bool
	closed      int
	inWrite     int
	readErr     error // what the failing Read reports (default verifErrRead)
	writeGate   bool  // every Write waits until the harness opens the gate (a momentarily slow peer)
	gateOpen    bool
	gatedErr    error // what the first Write that waited at the gate reports once the gate opens (nil: it succeeds)
}

// a transport error of the "timeout" kind (net.Error with Timeout() true), as a write deadline produces
type verifTimeoutErr struct{}

func (verifTimeoutErr) Error() string   { return "verif: i/o timeout" }
func (verifTimeoutErr) Timeout() bool   { return true }
func (verifTimeoutErr) Temporary() bool { return true }

func (t *verifBlockRWC) Read(p []byte) (int, error) {
	if len(t.data) > 0 {
		n := copy(p, t.data)
		t.data = t.data[n:]
		return n, nil
	}
	verifBlockUntil(&t.wake)
	if t.closedFlag {
		return 0, io.ErrClosedPipe
	}
	if t.readErr != nil {
		return 0, t.readErr
	}
	return 0, verifErrRead
}

func (t *verifBlockRWC) Write(p []byte) (int, error) {
	if t.writeBlocks {
		t.inWrite++
		verifBlockUntil(&t.closedFlag)
		return 0, io.ErrClosedPipe
	}
	if t.writeGate {
		t.inWrite++
		verifBlockUntil(&t.gateOpen)
		t.inWrite--
		if t.gatedErr != nil {
			e := t.gatedErr
			t.gatedErr = nil
			return 0, e
		}
	}
	return t.VerifRecWriter.Write(p)
}

func (t *verifBlockRWC) Close() error {
	t.closed++
	t.closedFlag = true
	t.wake = true
	return nil
}

// the events a channel has pushed so far (the event channel is a sink)
func verifDrainEvents(n *Node) (opens, closes, frames, others int, closeErr error) {
	for len(n.chEvent) > 0 {
		switch e := (<-n.chEvent).(type) {
		case *EventChannelOpen:
			opens++
		case *EventChannelClose:
			closes++
			closeErr = e.Error
		case *EventFrame:
			frames++
		default:
			others++
		}
	}
	return
}

func verifStartedChannel(n *Node, t *verifBlockRWC) *Channel {
	return verifStartedChannelRWC(n, t)
}

func verifStartedChannelRWC(n *Node, t io.ReadWriteCloser) *Channel {
	ch := &Channel{node: n, rwc: t}
	if err := ch.initialize(); err != nil {
		panic(err)
	}
	verifChanSink(n.chEvent)
	verifChanSink(n.chCloseChannel)
	n.channels[ch] = struct{}{}
	// what Channel.start does, minus the go statement (the scheduler runs ch.run as a goroutine)
	ch.running = true
	n.wg.Add(1)
	return ch
}

// a received frame carrying a raw message whose id is outside the harness dialect
func verifOutsideFrame(seq byte) frame.Frame {
	return &frame.V2Frame{SequenceNumber: seq, SystemID: 8, ComponentID: 7, Checksum: 0x1234,
		Message: &message.MessageRaw{ID: 9999, Payload: []byte{1, 2, 3}}}
}

// L1b (C13, second sentence, with the first): the transport stalls inside a Write, the backlog fills up completely
// (64 queued, more discarded), then the stalled Write fails - with a generic error (kind 0) or with a timeout-type
// net.Error (kind 1). Afterwards the channel is closed and reported, or it still delivers; it does not stay open
// and mute. One schedule.
func verifHarness_C13_failed_write_full_backlog(kind int) {
	n := verifBareNode(V2, 1, 1)
	t := &verifBlockRWC{writeGate: true, gatedErr: verifErrRead}
	if kind == 1 {
		t.gatedErr = verifTimeoutErr{}
	}
	ch := verifStartedChannel(n, t)
	verifRunGoroutines(func() { ch.run() })
	opens, closes, _, _, _ := verifDrainEvents(n)
	verifAssert(opens == 1 && closes == 0, "C13/L1b/open-event-first")
	for i := 0; i < 67; i++ {
		ch.write(&message.MessageRaw{ID: 202, Payload: []byte{byte(i), 1, 1, 1, 1}})
		if i == 0 {
			verifRunGoroutines(nil) // the writer takes the first item and stalls inside the transport
		}
	}
	verifAssert(t.inWrite == 1 && len(ch.chWrite) == 64, "C13/L1b/writer-stalled-backlog-full")
	t.gateOpen = true // the stalled call returns its error
	verifRunGoroutines(nil)
	_, closes, _, _, _ = verifDrainEvents(n)
	before := len(t.Buf())
	for i := 0; i < 3; i++ {
		ch.write(&message.MessageRaw{ID: 202, Payload: []byte{9, 9, 9, 9, byte(i)}})
		verifRunGoroutines(nil)
	}
	_, closes2, _, _, _ := verifDrainEvents(n)
	closes += closes2
	delivered := len(t.Buf()) > before
	verifAssert(closes <= 1, "C13/L1b/at-most-one-close-event")
	verifAssert(closes == 1 || delivered, "C13/L1b/after-a-failed-write-with-a-full-backlog-closed-and-reported-or-still-delivering")
	verifReach("C13/L1b")
}

// L1 (C13, second sentence): a write on a channel fails (transport error at the first Write, or an item that cannot be
// encoded for the link). Afterwards the channel is either closed and reported by a close event, or it keeps
// delivering later valid writes. One schedule: every goroutine runs until it blocks, round-robin, to quiescence.
// cause 0: transport Write error on a message; 1: raw message with an id outside the dialect; 2: transport Write error
// on a forwarded frame; 5-7: the same failures reported together with a full byte count. wrap 1: the transport is handed over behind a wrapper whose Close does nothing, as the custom
// and UDP broadcast endpoints do.
func verifHarness_C13_failed_write(cause int, k int, wrap int) {
	n := verifBareNode(V2, 1, 1)
	t := &verifBlockRWC{}
	outside := false
	if cause == 8 {
		// a pure router forwarding frames whose (raw) message id its dialect does not know, on a link whose write
		// side fails for good: forwarding needs no dialect, so the failure is the transport's, not the item's
		outside = true
		cause = 3
	}
	if cause >= 5 {
		// 5: message, failing once; 6: message, 7: frame, failing for good; the failing calls report the full byte
		// count together with the error
		t.SetFailFull(true)
		cause = []int{0, 4, 3}[cause-5]
	}
	perm := cause >= 3 // 3: frame, 4: message, on a transport whose write side fails for good from call k on
	if perm {
		t.SetFailFrom(k)
		cause -= 1
		if cause == 3 {
			cause = 0
		}
	} else if cause != 1 {
		t.SetFailAt(k)
	}
	var ch *Channel
	if wrap == 1 {
		ch = verifStartedChannelRWC(n, &removeCloser{t})
	} else {
		ch = verifStartedChannel(n, t)
	}
	verifRunGoroutines(func() { ch.run() })
	opens, closes, _, _, _ := verifDrainEvents(n)
	verifAssert(opens == 1 && closes == 0, "C13/L1/open-event-first")
	// k-1 writes that succeed, then the failing one (contents arbitrary)
	for i := 1; i < k; i++ {
		ch.write(&message.MessageRaw{ID: 202, Payload: verifNondetBytes(5)})
		verifRunGoroutines(nil)
	}
	verifAssert(t.Calls() == k-1, "C13/L1/earlier-writes-delivered")
	var first interface{} = &message.MessageRaw{ID: 202, Payload: verifNondetBytes(5)}
	if cause == 2 {
		fr, _ := verifForwardFrame(true)
		first = fr
		if outside {
			first = verifOutsideFrame(1)
		}
	}
	if cause == 1 {
		id := verifNondetU32()
		verifAssume(id > 300 && id < 1<<24)
		first = &message.MessageRaw{ID: id, Payload: verifNondetBytes(1)}
	}
	ch.write(first)
	verifRunGoroutines(nil)
	_, closes, _, _, _ = verifDrainEvents(n)
	before := len(t.Buf())
	// a further valid item of the same kind (a pure router only ever forwards frames)
	if cause == 2 {
		fr2, _ := verifForwardFrame(true)
		if outside {
			ch.write(verifOutsideFrame(2))
		} else {
			ch.write(fr2)
		}
	} else {
		ch.write(&message.MessageRaw{ID: 202, Payload: []byte{9, 9, 9, 9, 9}})
	}
	verifRunGoroutines(nil)
	_, closes2, _, _, _ := verifDrainEvents(n)
	closes += closes2
	delivered := len(t.Buf()) > before
	verifAssert(closes <= 1, "C13/L1/at-most-one-close-event")
	verifAssert(closes == 1 || delivered, "C13/L1/after-a-failed-write-closed-and-reported-or-still-delivering")
	if closes == 1 && wrap == 0 {
		verifAssert(t.closed >= 1, "C13/L1/reported-close-closes-the-transport")
	}
	verifReach("C13/L1")
}

// L2 (C14 / C10 close clauses, one schedule): the read side fails while the writer is idle (busy 0) or stuck inside a
// transport Write that only returns when the transport is closed (busy 1): exactly one close event, carrying the
// read error, the transport closed, the channel's goroutines all finished, done closed.
func verifHarness_C14_read_failure(busy int) {
	// busy 2 / 3: as 0 / 1 with the peer disconnecting cleanly (the transport reports io.EOF)
	want := verifErrRead
	if busy >= 2 {
		want = io.EOF
		busy -= 2
	}
	n := verifBareNode(V2, 1, 1)
	t := &verifBlockRWC{writeBlocks: busy == 1, readErr: want}
	ch := verifStartedChannel(n, t)
	verifRunGoroutines(func() { ch.run() })
	if busy == 1 {
		ch.write(&message.MessageRaw{ID: 202, Payload: []byte{1, 2, 3, 4, 5}})
		verifRunGoroutines(nil)
		verifAssert(t.inWrite == 1, "C14/L2/writer-is-inside-the-transport")
	}
	verifDrainEvents(n)
	t.wake = true // the transport read now fails
	stillBlocked := verifRunGoroutines(nil)
	_, closes, _, _, cerr := verifDrainEvents(n)
	verifAssert(closes == 1, "C14/L2/exactly-one-close-event-after-a-read-failure")
	verifAssert(closes != 1 || cerr == want, "C14/L2/close-event-carries-the-cause")
	verifAssert(t.closed >= 1, "C14/L2/transport-closed")
	verifAssert(!stillBlocked, "C14/L2/no-goroutine-of-the-channel-left-behind")
	select {
	case <-ch.done:
	default:
		verifAssert(false, "C14/L2/done-signalled")
	}
	verifAssert(len(n.chCloseChannel) == 1, "C14/L2/node-told-to-forget-the-channel")
	verifReach("C14/L2")
}

// C12 (one schedule per scenario): a node over a custom transport is closed at a scripted point; when Close returns
// every goroutine the node started has ended, the transport has been closed exactly once, the event channel is
// closed, and a write issued afterwards returns.
// scenario 0: application consuming events, channel idle; 1: consumer stopped, the reader is stuck on the undelivered
// open event; 2: the writer is stuck inside a transport Write; 3: Close right after Initialize, nothing consumed,
// plus a write racing with it.
func verifHarness_C12_close(scenario int) {
	t := &verifBlockRWC{writeBlocks: scenario == 2}
	n := &Node{Dialect: verifHarnessDialect, OutVersion: V2, OutSystemID: 1, HeartbeatDisable: true,
		Endpoints: []EndpointConf{EndpointCustom{t}}}
	var ierr error
	verifRunGoroutines(func() { ierr = n.Initialize() })
	verifAssert(ierr == nil, "C12/initialize-ok")
	msg := &message.MessageRaw{ID: 202, Payload: []byte{1, 2, 3, 4, 5}}
	if scenario == 0 || scenario == 2 {
		evt := <-n.chEvent
		_, isOpen := evt.(*EventChannelOpen)
		verifAssert(isOpen, "C12/open-event-first")
		verifRunGoroutines(nil)
	}
	if scenario == 2 {
		verifRunGoroutines(func() { n.WriteMessageAll(msg) }) //nolint:errcheck
		verifAssert(t.inWrite == 1, "C12/writer-is-inside-the-transport")
	}
	var werr error
	if scenario == 3 {
		// a write racing with the close: started first, parked on the hand-over or served, then Close
		verifRunGoroutines(func() { werr = n.WriteMessageAll(msg) })
	}
	stillBlocked := verifRunGoroutines(func() { n.Close() })
	verifAssert(!stillBlocked, "C12/close-returns-and-every-goroutine-has-ended")
	verifAssert(verifBlockedGoroutines() == 0, "C12/no-goroutine-left-behind")
	verifAssert(t.closed == 1, "C12/custom-transport-closed-exactly-once")
	// the event channel is closed: ranging over it ends (pending events, if any, first)
	ended := false
	for i := 0; i < 8 && !ended; i++ {
		select {
		case _, ok := <-n.chEvent:
			if !ok {
				ended = true
			}
		default:
			i = 8
		}
	}
	verifAssert(ended, "C12/event-channel-closed")
	blocked := verifRunGoroutines(func() { werr = n.WriteMessageAll(msg) })
	verifAssert(!blocked && werr == nil, "C12/write-after-close-returns")
	blocked = verifRunGoroutines(func() { werr = n.WriteFrameTo(nil, &frame.V2Frame{Message: msg}) })
	verifAssert(!blocked, "C12/write-frame-after-close-returns")
	verifReach("C12/close")
}

// C10 (one schedule): the whole channel (run + reader + writer goroutines) over a finite stream, with the harness
// as the application taking events one at a time from the unbuffered event channel: open first, one event per
// item in arrival order, then exactly one close event carrying the transport's error, then nothing; every
// goroutine of the channel has ended.
func verifHarness_C10_consumer(keyed int, chunk int) {
	verifC10Consumer(keyed, chunk, 0)
}

// the same over a custom endpoint's connection (the wrapper EndpointCustom puts around the user's transport), the
// transport delivering its last bytes together with io.EOF
func verifHarness_C10_consumer_custom(keyed int, chunk int) {
	verifC10Consumer(keyed, chunk, 1)
}

func verifC10Consumer(keyed int, chunk int, custom int) {
	n := verifBareNode(V2, 1, 1)
	var kb []byte
	if keyed == 1 {
		n.InKey, kb = verifKey()
	}
	ts := verifNondetU64()
	verifAssume(ts < 1<<48)
	var stream []byte
	stream = append(stream, verifValidFrame(20, kb, ts)...)
	junk := verifNondetU8()
	verifAssume(junk != 0xFE && junk != 0xFD)
	stream = append(stream, junk)
	stream = append(stream, verifValidFrame(21, kb, ts)...)
	stream = append(stream, verifValidFrame(22, kb, ts)...)
	var chunks []int
	if chunk > 0 {
		chunks = []int{chunk}
	}
	rwc := &verifRWC{rd: frame.VerifChunkReader(stream, chunks)}
	ch := &Channel{node: n, rwc: rwc}
	if custom == 1 {
		rwc.rd = frame.VerifChunkReaderEndWithData(stream, chunks)
		e := &endpointCustom{node: n, conf: EndpointCustom{rwc}}
		verifAssert(e.initialize() == nil, "C10/C/custom-endpoint-init")
		_, conn, perr := e.provide()
		verifAssert(perr == nil && conn != nil, "C10/C/custom-endpoint-provides")
		ch = &Channel{node: n, rwc: conn}
	}
	verifAssert(ch.initialize() == nil, "C10/C/channel-init")
	verifChanSink(n.chCloseChannel)
	n.channels[ch] = struct{}{}
	ch.running = true
	n.wg.Add(1)
	verifRunGoroutines(func() { ch.run() })
	want := []int{0, 1, 2, 1, 1, 3} // 0 open, 1 frame, 2 parse error, 3 close
	seqs := []byte{0, 20, 0, 21, 22, 0}
	// the application queues the events it receives and looks at them afterwards (bursty consumption): an event
	// handed over stays what it was while later input is parsed
	got := make([]Event, 0, len(want))
	for i := 0; i < len(want); i++ {
		if i == len(want)-1 {
			// everything but the close event has been taken; the channel's goroutines have run as far as they can:
			// the channel is not declared done (which lets a one-channel-at-a-time endpoint open the next one)
			// before its close event has been delivered
			verifRunGoroutines(nil)
			select {
			case <-ch.done:
				verifAssert(false, "C10/C/not-done-before-the-close-event-is-delivered")
			default:
			}
		}
		got = append(got, <-n.chEvent) // the goroutines run on until an event is handed over
	}
	for i := 0; i < len(want); i++ {
		switch e := got[i].(type) {
		case *EventChannelOpen:
			verifAssert(want[i] == 0 && e.Channel == ch, "C10/C/open-first")
		case *EventFrame:
			verifAssert(want[i] == 1 && e.Channel == ch && e.Frame.GetSequenceNumber() == seqs[i], "C10/C/frames-lossless-in-order")
		case *EventParseError:
			verifAssert(want[i] == 2 && e.Channel == ch, "C10/C/rejected-input-is-a-parse-error")
		case *EventChannelClose:
			verifAssert(want[i] == 3 && e.Channel == ch, "C10/C/close-last")
			verifAssert(e.Error == io.EOF, "C10/C/close-carries-the-cause")
		default:
			verifAssert(false, "C10/C/unexpected-event")
		}
	}
	stillBlocked := verifRunGoroutines(nil)
	verifAssert(!stillBlocked && verifBlockedGoroutines() == 0, "C10/C/channel-goroutines-ended")
	verifAssert(len(n.chEvent) == 0, "C10/C/nothing-after-close")
	if custom == 0 {
		verifAssert(rwc.closed >= 1, "C10/C/transport-closed")
	}
	verifReach("C10/C")
}

// C10/C13 (one schedule): several frames arrive in one piece while the application is slow (it has taken only the
// open event); a write on the channel fails. Whatever the channel does about the failure, the close event is the
// last event of the channel: every frame already received comes before it, nothing after it.
func verifHarness_C10_write_failure_order() {
	n := verifBareNode(V2, 1, 1)
	t := &verifBlockRWC{}
	t.SetFailAt(1)
	ts := uint64(0)
	t.data = append(t.data, verifValidFrame(30, nil, ts)...)
	t.data = append(t.data, verifValidFrame(31, nil, ts)...)
	t.data = append(t.data, verifValidFrame(32, nil, ts)...)
	ch := verifStartedChannel(n, t)
	// chEvent must be a real unbuffered channel here: the application is slow
	n.chEvent = make(chan Event)
	verifRunGoroutines(func() { ch.run() })
	evt := <-n.chEvent
	_, isOpen := evt.(*EventChannelOpen)
	verifAssert(isOpen, "C10/W/open-first")
	verifRunGoroutines(nil) // the reader is now stuck handing over frame 30
	ch.write(&message.MessageRaw{ID: 202, Payload: []byte{1, 2, 3, 4, 5}})
	verifRunGoroutines(nil) // the write fails
	seen := 0
	closed := false
	for i := 0; i < 6; i++ {
		if closed {
			break
		}
		if verifBlockedGoroutines() == 0 && len(n.chEvent) == 0 {
			break
		}
		e := <-n.chEvent
		switch ev := e.(type) {
		case *EventFrame:
			verifAssert(ev.Frame.GetSequenceNumber() == byte(30+seen), "C10/W/frames-in-arrival-order")
			seen++
		case *EventChannelClose:
			closed = true
		}
		verifRunGoroutines(nil)
	}
	if closed {
		verifAssert(seen == 3, "C10/W/close-event-comes-after-every-received-frame")
		verifRunGoroutines(nil)
		verifAssert(len(n.chEvent) == 0 && verifBlockedGoroutines() == 0, "C10/W/nothing-after-close")
	}
	verifReach("C10/W")
}

// endpoint handing its transport to the channel directly (as the TCP / UDP / serial endpoints do), once
type verifDirectEndpoint struct {
	t      *verifBlockRWC
	calls  int
	closed int
}

func (e *verifDirectEndpoint) Conf() EndpointConf      { return nil }
func (e *verifDirectEndpoint) isEndpoint()             {}
func (e *verifDirectEndpoint) close()                  { e.closed++ }
func (e *verifDirectEndpoint) oneChannelAtAtime() bool { return true }
func (e *verifDirectEndpoint) provide() (string, io.ReadWriteCloser, error) {
	e.calls++
	if e.calls > 1 {
		return "", nil, errTerminated
	}
	return "direct", e.t, nil
}

type verifDirectConf struct{ ep *verifDirectEndpoint }

func (c verifDirectConf) init(*Node) (Endpoint, error) { return c.ep, nil }

// C13 (first sentence at node level, one schedule): two links whose transports the channels close themselves; the application has taken the open events and then
// stops receiving events. A write to all links fails on link A. Whatever the failing channel does about it, the node
// keeps serving: two further writes to all links return and reach the healthy link B, in order.
func verifHarness_C13_node_keeps_serving(perm int) {
	a, b := &verifBlockRWC{}, &verifBlockRWC{}
	if perm == 1 {
		a.SetFailFrom(1)
	} else {
		a.SetFailAt(1)
	}
	n := &Node{Dialect: verifHarnessDialect, OutVersion: V2, OutSystemID: 1, HeartbeatDisable: true,
		Endpoints: []EndpointConf{verifDirectConf{&verifDirectEndpoint{t: a}}, verifDirectConf{&verifDirectEndpoint{t: b}}}}
	var ierr error
	verifRunGoroutines(func() { ierr = n.Initialize() })
	verifAssert(ierr == nil, "C13/N/initialize-ok")
	for i := 0; i < 2; i++ {
		evt := <-n.chEvent
		_, isOpen := evt.(*EventChannelOpen)
		verifAssert(isOpen, "C13/N/open-events-first")
		verifRunGoroutines(nil)
	}
	// from here on the application is busy elsewhere: nobody receives from Events()
	msgs := []*message.MessageRaw{
		{ID: 202, Payload: []byte{1, 1, 1, 1, 1}},
		{ID: 202, Payload: []byte{2, 2, 2, 2, 2}},
		{ID: 202, Payload: []byte{3, 3, 3, 3, 3}},
	}
	for i, m := range msgs {
		returned := false
		m := m
		verifRunGoroutines(func() { n.WriteMessageAll(m); returned = true }) //nolint:errcheck
		verifAssert(returned, "C13/N/write-returns-although-a-channel-failed-and-nobody-reads-events")
		if !returned {
			return
		}
		verifAssert(b.Calls() == i+1, "C13/N/healthy-link-served")
	}
	// B got the three frames in order (5-byte payloads 1.., 2.., 3.. inside 17-byte frames)
	buf := b.Buf()
	verifAssert(len(buf) == 3*17, "C13/N/healthy-link-got-every-frame")
	if len(buf) == 3*17 {
		verifAssert(buf[10] == 1 && buf[17+10] == 2 && buf[34+10] == 3, "C13/N/healthy-link-in-order")
	}
	verifReach("C13/N")
}


// C11 at node level (one schedule): a router forwards three different frames to all links while one link is
// momentarily slow (its transport Write waits): once the link catches up, each link has carried the three frames, whole,
// in submission order, each exactly once - a frame waiting in a backlog is not touched by later ones.
func verifHarness_C11_node_forward_frames() {
	a, b := &verifBlockRWC{writeGate: true}, &verifBlockRWC{}
	n := &Node{Dialect: verifHarnessDialect, OutVersion: V2, OutSystemID: 1, HeartbeatDisable: true,
		Endpoints: []EndpointConf{verifDirectConf{&verifDirectEndpoint{t: a}}, verifDirectConf{&verifDirectEndpoint{t: b}}}}
	var ierr error
	verifRunGoroutines(func() { ierr = n.Initialize() })
	verifAssert(ierr == nil, "C11/NF/initialize-ok")
	for i := 0; i < 2; i++ {
		evt := <-n.chEvent
		_, isOpen := evt.(*EventChannelOpen)
		verifAssert(isOpen, "C11/NF/open-events-first")
		verifRunGoroutines(nil)
	}
	var want []byte
	for i := 0; i < 3; i++ {
		seq, sys := verifNondetU8(), verifNondetU8()
		ck := verifNondetU16()
		payload := verifNondetBytes(2)
		keep := []byte{payload[0], payload[1]}
		fr := &frame.V2Frame{SequenceNumber: seq, SystemID: sys, ComponentID: byte(i + 1), Checksum: ck,
			Message: &message.MessageRaw{ID: 77777, Payload: payload}}
		want = append(want, frame.VerifSpecV2(0, 0, seq, sys, byte(i+1), 77777, keep, ck, false, 0, 0, nil)...)
		returned := false
		verifRunGoroutines(func() { n.WriteFrameAll(fr); returned = true }) //nolint:errcheck
		verifAssert(returned, "C11/NF/write-returns")
	}
	{
		// a fourth frame as a dialect-aware router forwards it: decoded message, signed, every header field and the
		// whole signature block arbitrary - all of them are the frame's own and go out unchanged
		compat, seq, sys, comp, link := verifNondetU8(), verifNondetU8(), verifNondetU8(), verifNondetU8(), verifNondetU8()
		ck := verifNondetU16()
		ts := verifNondetU64()
		verifAssume(ts < 1<<48)
		v := verifNondetU8()
		verifAssume(v != 0)
		sig := new(frame.V2Signature)
		sigb := verifNondetBytes(6)
		copy(sig[:], sigb)
		fr := &frame.V2Frame{IncompatibilityFlag: 1, CompatibilityFlag: compat, SequenceNumber: seq, SystemID: sys, ComponentID: comp,
			Checksum: ck, SignatureLinkID: link, SignatureTimestamp: ts, Signature: sig, Message: &frame.MessageVerifMessageBox{V: v}}
		want = append(want, frame.VerifSpecV2(1, compat, seq, sys, comp, 204, []byte{v}, ck, true, link, ts,
			[]byte{sigb[0], sigb[1], sigb[2], sigb[3], sigb[4], sigb[5]})...)
		returned := false
		verifRunGoroutines(func() { n.WriteFrameAll(fr); returned = true }) //nolint:errcheck
		verifAssert(returned, "C11/NF/write-returns")
	}
	{
		// two originated messages submitted through the SAME struct, a field changed in between: each frame carries
		// the value the struct had when it was submitted, with the link's identity and consecutive sequence numbers
		v1, v2 := verifNondetU8(), verifNondetU8()
		verifAssume(v1 != 0 && v2 != 0)
		m := &frame.MessageVerifMessageBox{V: v1}
		crc := n.dialectRW.GetMessage(204).CRCExtra()
		for i, v := range []byte{v1, v2} {
			m.V = v
			ck := frame.VerifSpecChecksumV2(0, 0, byte(i), 1, 1, 204, []byte{v}, crc)
			want = append(want, frame.VerifSpecV2(0, 0, byte(i), 1, 1, 204, []byte{v}, ck, false, 0, 0, nil)...)
			returned := false
			verifRunGoroutines(func() { n.WriteMessageAll(m); returned = true }) //nolint:errcheck
			verifAssert(returned, "C11/NF/write-returns")
		}
	}
	verifAssert(verifEqBytes(b.Buf(), want), "C11/NF/healthy-link-carries-every-frame-in-order")
	a.gateOpen = true
	verifRunGoroutines(nil)
	verifAssert(verifEqBytes(a.Buf(), want), "C11/NF/slow-link-carries-every-frame-in-order-once-it-catches-up")
	verifReach("C11/NF")
}

// C10: a long run of rejected input (130 junk bytes in a row, then a frame with a wrong checksum) is 131 parse errors,
// nothing else: the channel stays open and the valid frame behind it is delivered.
func verifHarness_C10_many_errors() {
	n := verifBareNode(V2, 1, 1)
	var stream []byte
	for i := 0; i < 130; i++ {
		stream = append(stream, byte(i%200)) // 0..199: never a frame marker
	}
	bad := verifValidFrame(5, nil, 0)
	bad[10+9] ^= 0x40
	stream = append(stream, bad...)
	stream = append(stream, verifValidFrame(6, nil, 0)...)
	rwc := &verifRWC{rd: frame.VerifChunkReader(stream, nil)}
	ch := &Channel{node: n, rwc: rwc}
	verifAssert(ch.initialize() == nil, "C10/E/channel-init")
	verifChanSink(n.chEvent)
	verifChanSink(n.chCloseChannel)
	var rerr error
	blocked := verifRunUntilBlocked(func() { rerr = ch.runReader() })
	verifAssert(!blocked && rerr == io.EOF, "C10/E/reader-ends-with-the-transports-eof-only")
	_, closes, frames, others, _ := verifDrainEvents(n)
	verifAssert(frames == 1, "C10/E/valid-frame-behind-the-errors-delivered")
	verifAssert(others == 131 && closes == 0, "C10/E/one-parse-error-per-rejected-item-and-nothing-else")
	verifReach("C10/E")
}
