package gomavlib

import (
	"time"

	"github.com/bluenviron/gomavlib/v3/pkg/dialect"
	"github.com/bluenviron/gomavlib/v3/pkg/dialects/common"
	"github.com/bluenviron/gomavlib/v3/pkg/dialects/minimal"
	"github.com/bluenviron/gomavlib/v3/pkg/frame"
	"github.com/bluenviron/gomavlib/v3/pkg/message"
)

// a message with id 0 that is not the standard heartbeat (different CRC_EXTRA)
type MessageVerifFakeHeartbeat struct {
	Foo uint16
}

func (*MessageVerifFakeHeartbeat) GetID() uint32 { return 0 }

// a message with id 66 that is not the standard REQUEST_DATA_STREAM
type MessageVerifFakeRequest struct {
	Bar uint8
}

func (*MessageVerifFakeRequest) GetID() uint32 { return 66 }

// a message that is not a heartbeat but has a field named Autopilot (as HIGH_LATENCY2, id 235, has)
type MessageVerifAutopilotCarrier struct {
	Autopilot uint8
	Other     uint8
}

func (*MessageVerifAutopilotCarrier) GetID() uint32 { return 235 }

func verifDialectKind(kind int) *dialect.Dialect {
	switch kind {
	case 0:
		return nil
	case 1: // standard heartbeat and request
		return &dialect.Dialect{Version: 3, Messages: []message.Message{&minimal.MessageHeartbeat{}, &common.MessageRequestDataStream{}}}
	case 2: // no id-0 message
		return &dialect.Dialect{Version: 3, Messages: []message.Message{&frame.MessageVerifScalars{}, &common.MessageRequestDataStream{}}}
	case 3: // id 0 is not the standard heartbeat
		return &dialect.Dialect{Version: 3, Messages: []message.Message{&MessageVerifFakeHeartbeat{}, &common.MessageRequestDataStream{}}}
	case 4: // heartbeat only
		return &dialect.Dialect{Version: 3, Messages: []message.Message{&minimal.MessageHeartbeat{}}}
	default: // heartbeat + non-standard id 66
		return &dialect.Dialect{Version: 3, Messages: []message.Message{&minimal.MessageHeartbeat{}, &MessageVerifFakeRequest{}}}
	}
}

// H1/S1: the modules are enabled exactly when configured and the dialect has the standard messages
func verifHarness_C16_enable(kind int, hbDisable int, srEnable int) {
	n := &Node{Dialect: verifDialectKind(kind), HeartbeatDisable: hbDisable == 1, StreamRequestEnable: srEnable == 1}
	h := &nodeHeartbeat{node: n}
	err := h.initialize()
	wantHB := hbDisable == 0 && (kind == 1 || kind == 4 || kind == 5)
	verifAssert((err == nil) == wantHB, "C16/H1/heartbeat-enabled-iff-configured-and-standard-message")
	if err != nil {
		verifAssert(err == errSkip, "C16/H1/skip-error")
	}
	sr := &nodeStreamRequest{node: n}
	err = sr.initialize()
	wantSR := srEnable == 1 && kind == 1
	verifAssert((err == nil) == wantSR, "C16/S1/stream-requests-enabled-iff-configured-and-standard-messages")
	if err != nil {
		verifAssert(err == errSkip, "C16/S1/skip-error")
	}
	verifReach("C16/HS1")
}

// H2: one tick of the heartbeat loop: exactly one heartbeat handed to WriteMessageAll with the configured contents;
// the ticker period is the configured period.
func verifHarness_C16_tick() {
	d := verifDialectKind(1)
	ver := verifNondetU8()
	d.Version = int(ver)
	period := verifNondetI64()
	verifAssume(period > 0)
	systype, aptype := verifNondetU8(), verifNondetU8()
	n := verifBareNode(V2, 1, 1)
	n.Dialect = d
	n.dialectRW = &dialect.ReadWriter{Dialect: d}
	verifAssert(n.dialectRW.Initialize() == nil, "C16/H2/dialect")
	n.HeartbeatPeriod = time.Duration(period)
	n.HeartbeatSystemType = int(systype)
	n.HeartbeatAutopilotType = int(aptype)
	h := &nodeHeartbeat{node: n}
	verifAssert(h.initialize() == nil, "C16/H2/enabled")
	verifChanSink(n.chWriteAll)
	blocked := verifRunUntilBlocked(func() { h.run() })
	verifAssert(blocked, "C16/H2/loop-waits-for-next-tick")
	verifAssert(verifTimerCount() == 1 && verifTimerDuration(0) == time.Duration(period), "C16/H2/ticker-period-is-configured-period")
	verifAssert(len(n.chWriteAll) == 1, "C16/H2/one-heartbeat-per-tick")
	if len(n.chWriteAll) == 1 {
		what := <-n.chWriteAll
		raw, ok := what.(*message.MessageRaw)
		verifAssert(ok && raw.ID == 0, "C16/H2/heartbeat-message")
		if ok {
			// decode with the standard definition
			rw := &message.ReadWriter{Message: &minimal.MessageHeartbeat{}}
			verifAssert(rw.Initialize() == nil, "C16/H2/rw")
			m, err := rw.Read(raw, true)
			verifAssert(err == nil, "C16/H2/decodes")
			hb := m.(*minimal.MessageHeartbeat)
			verifAssert(uint64(hb.Type) == uint64(systype) && uint64(hb.Autopilot) == uint64(aptype), "C16/H2/configured-types")
			verifAssert(hb.BaseMode == 0 && hb.CustomMode == 0, "C16/H2/modes-zero")
			verifAssert(hb.SystemStatus == 4, "C16/H2/status-active")
			verifAssert(hb.MavlinkVersion == ver, "C16/H2/dialect-version")
		}
	}
	verifReach("C16/H2")
}

// S2: one incoming frame, table pre-state arbitrary for the sender: requests iff standard heartbeat from an
// ArduPilot autopilot and (sender unknown or last request at least 30 s ago).
// known 0: sender not in the table; 1: in the table with an arbitrary earlier time. other 0: heartbeat; 1: another message; 2: another message that has an Autopilot field too.
func verifHarness_C16_request(known int, other int) {
	defer verifPatchClock()()
	d := verifDialectKind(1)
	n := verifBareNode(V2, 1, 1)
	n.Dialect = d
	n.StreamRequestEnable = true
	freq := verifNondetU16() // the wire field is 16 bits wide
	verifAssume(freq > 0)
	n.StreamRequestFrequency = int(freq)
	n.dialectRW = &dialect.ReadWriter{Dialect: d}
	verifAssert(n.dialectRW.Initialize() == nil, "C16/S2/dialect")
	sr := &nodeStreamRequest{node: n}
	verifAssert(sr.initialize() == nil, "C16/S2/enabled")
	verifChanSink(n.chWriteTo)
	verifChanSink(n.chWriteAll)
	verifChanSink(n.chWriteExcept)
	verifChanSink(n.chEvent)
	ch := verifBareChannel(n)
	otherCh := verifBareChannel(n)
	sys, comp, ap := verifNondetU8(), verifNondetU8(), verifNondetU8()
	var msg message.Message = &minimal.MessageHeartbeat{Autopilot: minimal.MAV_AUTOPILOT(ap), Type: minimal.MAV_TYPE(verifNondetU8())}
	if other == 1 {
		msg = &common.MessageRequestDataStream{TargetSystem: sys}
	}
	if other == 2 {
		msg = &MessageVerifAutopilotCarrier{Autopilot: ap, Other: verifNondetU8()}
	}
	evt := &EventFrame{Frame: &frame.V2Frame{SystemID: sys, ComponentID: comp, Message: msg}, Channel: ch}
	key := streamNode{Channel: ch, SystemID: sys, ComponentID: comp}
	// an unrelated entry that must not be touched
	otherKey := streamNode{Channel: otherCh, SystemID: sys, ComponentID: comp}
	otherTime := verifClockRef.Add(12345)
	sr.lastRequests[otherKey] = otherTime
	t0 := verifNondetU64()
	var last time.Time
	if known == 1 {
		verifAssume(t0 < (1<<48)*10000)
		last = verifClockAt(t0)
		sr.lastRequests[key] = last
	}
	sr.onEventFrame(evt)
	var now uint64
	readings := verifClockReadings()
	if readings > 0 {
		now = verifClockLast()
	}
	isHB := other == 0
	due := known == 0
	if known == 1 && readings > 0 {
		verifAssume(now >= t0) // earlier entries were stored from earlier clock readings
		due = verifBranch(now-t0 >= 30000000000)
	}
	want := isHB && verifBranch(ap == 3) && due
	nreq := len(n.chWriteTo)
	if want {
		verifAssert(nreq == 7, "C16/S2/seven-requests")
		streams := []uint8{1, 2, 3, 6, 10, 11, 12}
		rw := &message.ReadWriter{Message: &common.MessageRequestDataStream{}}
		verifAssert(rw.Initialize() == nil, "C16/S2/rw")
		for i := 0; i < nreq && i < 7; i++ {
			req := <-n.chWriteTo
			verifAssert(req.ch == ch, "C16/S2/addressed-to-the-senders-channel-only")
			raw, ok := req.what.(*message.MessageRaw)
			verifAssert(ok && raw.ID == 66, "C16/S2/request-data-stream-message")
			if ok {
				m, err := rw.Read(raw, true)
				verifAssert(err == nil, "C16/S2/request-decodes")
				r := m.(*common.MessageRequestDataStream)
				verifAssert(r.TargetSystem == sys && r.TargetComponent == comp, "C16/S2/targets-the-sender")
				verifAssert(r.ReqStreamId == streams[i], "C16/S2/standard-streams-in-order")
				verifAssert(r.ReqMessageRate == freq && r.StartStop == 1, "C16/S2/configured-rate-and-start")
			}
		}
		verifAssert(len(n.chEvent) == 1, "C16/S2/one-stream-requested-event")
		if len(n.chEvent) == 1 {
			e, ok := (<-n.chEvent).(*EventStreamRequested)
			verifAssert(ok && e.Channel == ch && e.SystemID == sys && e.ComponentID == comp, "C16/S2/event-names-the-sender")
		}
		got, ok := sr.lastRequests[key]
		verifAssert(ok && got.Equal(verifClockAt(now)), "C16/S2/table-remembers-now")
	} else {
		verifAssert(nreq == 0, "C16/S2/no-request")
		verifAssert(len(n.chEvent) == 0, "C16/S2/no-event")
		got, ok := sr.lastRequests[key]
		verifAssert(ok == (known == 1), "C16/S2/table-membership-unchanged")
		if ok {
			verifAssert(got.Equal(last), "C16/S2/table-time-unchanged")
		}
	}
	verifAssert(len(n.chWriteAll) == 0 && len(n.chWriteExcept) == 0, "C16/S2/nothing-broadcast")
	o, ok := sr.lastRequests[otherKey]
	verifAssert(ok && o.Equal(otherTime), "C16/S2/other-senders-untouched")
	verifReach("C16/S2")
}

// S3: two heartbeats in a row. same 1: from the same (channel, system, component); 0: the second from another
// component of the same system. The first always triggers (table empty); the second triggers again iff it is a
// different sender or at least 30 s have passed between the two clock readings.
func verifHarness_C16_two(same int) {
	defer verifPatchClock()()
	d := verifDialectKind(1)
	n := verifBareNode(V2, 1, 1)
	n.Dialect = d
	n.StreamRequestEnable = true
	n.StreamRequestFrequency = 4
	n.dialectRW = &dialect.ReadWriter{Dialect: d}
	verifAssert(n.dialectRW.Initialize() == nil, "C16/S3/dialect")
	sr := &nodeStreamRequest{node: n}
	verifAssert(sr.initialize() == nil, "C16/S3/enabled")
	verifChanSink(n.chWriteTo)
	verifChanSink(n.chEvent)
	ch := verifBareChannel(n)
	sys, comp, comp2 := verifNondetU8(), verifNondetU8(), verifNondetU8()
	if same == 1 {
		comp2 = comp
	} else {
		verifAssume(comp2 != comp)
	}
	hb := func(c byte) *EventFrame {
		return &EventFrame{Frame: &frame.V2Frame{SystemID: sys, ComponentID: c,
			Message: &minimal.MessageHeartbeat{Autopilot: 3}}, Channel: ch}
	}
	sr.onEventFrame(hb(comp))
	verifAssert(len(n.chWriteTo) == 7 && len(n.chEvent) == 1, "C16/S3/first-heartbeat-triggers")
	t1 := verifClockLast()
	for len(n.chWriteTo) > 0 {
		<-n.chWriteTo
	}
	<-n.chEvent
	before := verifClockReadings()
	sr.onEventFrame(hb(comp2))
	t2 := verifClockLast()
	again := same == 0
	if same == 1 && verifClockReadings() > before {
		// the reading taken first in the second call decides
		again = verifBranch(verifClockReadingAt(before)-t1 >= 30000000000)
	}
	_ = t2
	if again {
		verifAssert(len(n.chWriteTo) == 7 && len(n.chEvent) == 1, "C16/S3/second-triggers-when-due-or-new-sender")
		for len(n.chWriteTo) > 0 {
			req := <-n.chWriteTo
			raw := req.what.(*message.MessageRaw)
			verifAssert(req.ch == ch && raw.ID == 66, "C16/S3/request-on-the-senders-channel")
		}
	} else {
		verifAssert(len(n.chWriteTo) == 0 && len(n.chEvent) == 0, "C16/S3/not-repeated-within-30-seconds")
	}
	verifReach("C16/S3")
}

// S4: the periodic cleanup and what follows it. The table holds one entry of an arbitrary age when the cleanup tick
// arrives: the entry is dropped iff it is at least 30 s old (so a sender is asked again exactly when its last request
// is that old), and afterwards a heartbeat from an ArduPilot sender is still processed: the reader's call returns
// (the cleanup does not keep the table locked) and, the sender being unknown or forgotten, it is asked.
func verifHarness_C16_cleanup() {
	defer verifPatchClock()()
	d := verifDialectKind(1)
	n := verifBareNode(V2, 1, 1)
	n.Dialect = d
	n.StreamRequestEnable = true
	n.StreamRequestFrequency = 4
	n.dialectRW = &dialect.ReadWriter{Dialect: d}
	verifAssert(n.dialectRW.Initialize() == nil, "C16/S4/dialect")
	sr := &nodeStreamRequest{node: n}
	verifAssert(sr.initialize() == nil, "C16/S4/enabled")
	verifChanSink(n.chWriteTo)
	verifChanSink(n.chEvent)
	ch := verifBareChannel(n)
	key := streamNode{Channel: ch, SystemID: 7, ComponentID: 8}
	t0 := verifNondetU64()
	verifAssume(t0 < (1<<48)*10000)
	sr.lastRequests[key] = verifClockAt(t0)
	blocked := verifRunUntilBlocked(func() { sr.run() })
	verifAssert(blocked, "C16/S4/loop-waits-for-the-next-tick")
	verifAssert(verifTimerCount() == 1 && verifTimerDuration(0) == 30*time.Second, "C16/S4/cleanup-every-30-s")
	// the tick carries the clock reading of the instant it fired (the first reading of this run)
	verifAssert(verifClockReadings() == 1, "C16/S4/one-tick")
	now := verifClockReadingAt(0)
	verifAssume(now >= t0) // earlier entries were stored from earlier clock readings
	_, still := sr.lastRequests[key]
	verifAssert(still == !verifBranch(now-t0 >= 30000000000), "C16/S4/entry-dropped-iff-30-s-old")
	other := streamNode{Channel: ch, SystemID: 9, ComponentID: 1}
	evt := &EventFrame{Frame: &frame.V2Frame{SystemID: 9, ComponentID: 1,
		Message: &minimal.MessageHeartbeat{Autopilot: 3}}, Channel: ch}
	blocked = verifRunUntilBlocked(func() { sr.onEventFrame(evt) })
	verifAssert(!blocked, "C16/S4/frames-are-processed-after-a-cleanup")
	if !blocked {
		verifAssert(len(n.chWriteTo) == 7, "C16/S4/unknown-sender-asked-after-a-cleanup")
		_, ok := sr.lastRequests[other]
		verifAssert(ok, "C16/S4/sender-remembered")
	}
	verifReach("C16/S4")
}

// S5 (C13 / C16): an ArduPilot heartbeat arrives on a channel whose outgoing backlog is full (its transport is stalled)
// and whose writer makes no progress: the reader's call returns all the same - asking for streams never parks the
// reader of a stalled channel, so its frame event and later frames are still delivered - and the seven requests went
// through the node's request channel like any other write (where a full queue drops them).
func verifHarness_C16_request_on_full_backlog() {
	defer verifPatchClock()()
	d := verifDialectKind(1)
	n := verifBareNode(V2, 1, 1)
	n.Dialect = d
	n.StreamRequestEnable = true
	n.StreamRequestFrequency = 4
	n.dialectRW = &dialect.ReadWriter{Dialect: d}
	verifAssert(n.dialectRW.Initialize() == nil, "C16/S5/dialect")
	sr := &nodeStreamRequest{node: n}
	verifAssert(sr.initialize() == nil, "C16/S5/enabled")
	verifChanSink(n.chWriteTo)
	verifChanSink(n.chEvent)
	ch := verifBareChannel(n)
	verifChanSymFill(ch.chWrite, 64) // full: nothing drains it
	evt := &EventFrame{Frame: &frame.V2Frame{SystemID: 9, ComponentID: 1,
		Message: &minimal.MessageHeartbeat{Autopilot: 3}}, Channel: ch}
	blocked := verifRunUntilBlocked(func() { sr.onEventFrame(evt) })
	verifAssert(!blocked, "C16/S5/reader-not-parked-by-a-full-backlog")
	if !blocked {
		verifAssert(len(n.chWriteTo) == 7, "C16/S5/requests-go-through-the-node")
		verifAssert(len(n.chEvent) == 1, "C16/S5/stream-requested-event")
	}
	verifReach("C16/S5")
}
