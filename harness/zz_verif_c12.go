package gomavlib

import (
	"errors"
	"io"

	"github.com/bluenviron/gomavlib/v3/pkg/dialect"
	"github.com/bluenviron/gomavlib/v3/pkg/dialects/common"
	"github.com/bluenviron/gomavlib/v3/pkg/dialects/minimal"
	"github.com/bluenviron/gomavlib/v3/pkg/frame"
	"github.com/bluenviron/gomavlib/v3/pkg/message"
)

// endpoint whose provide() is still connecting until the harness releases it
type verifSlowEndpoint struct {
	t       *verifBlockRWC
	release bool
	calls   int
	closed  int
}

func (e *verifSlowEndpoint) Conf() EndpointConf      { return nil }
func (e *verifSlowEndpoint) isEndpoint()             {}
func (e *verifSlowEndpoint) close()                  { e.closed++ }
func (e *verifSlowEndpoint) oneChannelAtAtime() bool { return true }
func (e *verifSlowEndpoint) provide() (string, io.ReadWriteCloser, error) {
	e.calls++
	verifBlockUntil(&e.release) // the connection attempt is in progress
	if e.calls > 1 {
		return "", nil, errTerminated
	}
	return "slow", e.t, nil
}

type verifSlowConf struct{ ep *verifSlowEndpoint }

func (c verifSlowConf) init(*Node) (Endpoint, error) { return c.ep, nil }

// a standard heartbeat frame (v2, unsigned) with the given autopilot byte
func verifHeartbeatWire(seq, sys, comp, autopilot byte) []byte {
	payload := []byte{0, 0, 0, 0, 2, autopilot, 0, 4, 3}
	ck := frame.VerifSpecChecksumV2(0, 0, seq, sys, comp, 0, payload, 50)
	return frame.VerifSpecV2(0, 0, seq, sys, comp, 0, payload, ck, false, 0, 0, nil)
}

// C12 (one schedule per scenario, continued).
// scenario 4: Close is issued while a provider is still connecting; the connection completes afterwards: it is
// released (closed exactly once) and Close returns.
// scenario 5: stream requests enabled, consumer stopped with the reader stuck on an undelivered frame event, the next
// buffered frame is an ArduPilot heartbeat (the reader will issue stream requests while the node is closing).
func verifHarness_C12_close2(scenario int) {
	t := &verifBlockRWC{}
	msg := &message.MessageRaw{ID: 202, Payload: []byte{1, 2, 3, 4, 5}}
	var n *Node
	var slow *verifSlowEndpoint
	if scenario == 4 {
		slow = &verifSlowEndpoint{t: t}
		n = &Node{Dialect: verifHarnessDialect, OutVersion: V2, OutSystemID: 1, HeartbeatDisable: true,
			Endpoints: []EndpointConf{verifSlowConf{slow}}}
	} else {
		d := &dialect.Dialect{Version: 3, Messages: []message.Message{&minimal.MessageHeartbeat{}, &common.MessageRequestDataStream{}}}
		sys := verifNondetU8()
		t.data = append(t.data, verifHeartbeatWire(1, sys, 1, 0)...)
		t.data = append(t.data, verifHeartbeatWire(2, sys, 1, 3)...)
		n = &Node{Dialect: d, OutVersion: V2, OutSystemID: 1, HeartbeatDisable: true, StreamRequestEnable: true,
			Endpoints: []EndpointConf{EndpointCustom{t}}}
	}
	var ierr error
	verifRunGoroutines(func() { ierr = n.Initialize() })
	verifAssert(ierr == nil, "C12/initialize-ok")
	if scenario == 5 {
		evt := <-n.chEvent
		_, isOpen := evt.(*EventChannelOpen)
		verifAssert(isOpen, "C12/open-event-first")
		verifRunGoroutines(nil) // the reader is stuck on the frame event of the first heartbeat
	}
	stillBlocked := verifRunGoroutines(func() { n.Close() })
	if scenario == 4 {
		verifAssert(stillBlocked, "C12/close-waits-for-the-connecting-provider")
		slow.release = true
		stillBlocked = verifRunGoroutines(nil)
	}
	verifAssert(!stillBlocked, "C12/close-returns-and-every-goroutine-has-ended")
	verifAssert(verifBlockedGoroutines() == 0, "C12/no-goroutine-left-behind")
	verifAssert(t.closed == 1, "C12/transport-or-connection-closed-exactly-once")
	werr := n.WriteMessageAll(msg)
	verifAssert(werr == nil, "C12/write-after-close-returns")
	verifReach("C12/close2")
}

var verifErrSetup = errors.New("verif: endpoint set-up failed")

type verifFailConf struct{}

func (verifFailConf) init(*Node) (Endpoint, error) { return nil, verifErrSetup }

// endpoint configuration that counts how often it was set up
type verifCountingConf struct {
	ep    *verifEndpoint
	inits *int
}

func (c verifCountingConf) init(*Node) (Endpoint, error) { *c.inits++; return c.ep, nil }

// C12, failed initialization for another reason than an endpoint (one schedule): the dialect is invalid (two messages
// with one id), a missing version, a zero system id. Initialize reports the error, no goroutine is left, and every
// endpoint that was set up on the way has been closed (scripted endpoints that count set-ups and closes).
func verifHarness_C12_init_failure_conf(kind int) {
	inits := 0
	ep1, ep2 := &verifEndpoint{one: true}, &verifEndpoint{one: true}
	n := &Node{Dialect: verifHarnessDialect, OutVersion: V2, OutSystemID: 1,
		Endpoints: []EndpointConf{verifCountingConf{ep1, &inits}, verifCountingConf{ep2, &inits}}}
	switch kind {
	case 0:
		n.Dialect = &dialect.Dialect{Version: 3, Messages: []message.Message{&frame.MessageVerifScalars{}, &frame.MessageVerifScalars{}}}
	case 1:
		n.OutVersion = 0
	case 2:
		n.OutSystemID = 0
	case 3:
		n.OutVersion = V1
		n.OutKey = new(frame.V2Key)
	case 4:
		// stream requests asked for with a dialect that lacks the stream-request message: whether the node treats
		// that as "module off" (it does) or as an error, nothing may be left behind
		n.StreamRequestEnable = true
		n.Dialect = &dialect.Dialect{Version: 3, Messages: []message.Message{&minimal.MessageHeartbeat{}}}
	case 5:
		n.StreamRequestEnable = true
		n.Dialect = nil
	}
	var ierr error
	stillBlocked := verifRunGoroutines(func() { ierr = n.Initialize() })
	if kind >= 4 {
		if ierr == nil {
			stillBlocked = verifRunGoroutines(func() { n.Close() })
			verifAssert(!stillBlocked && verifBlockedGoroutines() == 0, "C12/init-failure/no-goroutine-left-behind")
			verifAssert(ep1.closed == 1 && ep2.closed == 1, "C12/close-releases-every-endpoint")
			verifReach("C12/init-failure-conf")
			return
		}
	}
	verifAssert(ierr != nil, "C12/init-failure/reported")
	verifAssert(!stillBlocked && verifBlockedGoroutines() == 0, "C12/init-failure/no-goroutine-left-behind")
	verifAssert(ep1.closed+ep2.closed == inits, "C12/init-failure/every-endpoint-set-up-is-closed")
	verifAssert(ep1.closed <= 1 && ep2.closed <= 1, "C12/init-failure/closed-at-most-once")
	if kind < 4 {
		verifAssert(ep1.calls == 0 && ep2.calls == 0, "C12/init-failure/no-provider-started")
	}
	verifReach("C12/init-failure-conf")
}

// C12, failed initialization (one schedule): the first endpoint is usable (custom transport: it would yield a channel
// at once), the second one cannot be set up. Initialize reports the error, and nothing is left behind: no goroutine,
// and the endpoint that was already set up has been closed (the custom transport exactly once).
func verifHarness_C12_init_failure(order int) {
	t := &verifBlockRWC{}
	eps := []EndpointConf{EndpointCustom{t}, verifFailConf{}}
	if order == 1 {
		eps = []EndpointConf{verifFailConf{}, EndpointCustom{t}}
	}
	n := &Node{Dialect: verifHarnessDialect, OutVersion: V2, OutSystemID: 1, HeartbeatDisable: true, Endpoints: eps}
	var ierr error
	stillBlocked := verifRunGoroutines(func() { ierr = n.Initialize() })
	verifAssert(ierr != nil, "C12/init-failure/reported")
	verifAssert(!stillBlocked && verifBlockedGoroutines() == 0, "C12/init-failure/no-goroutine-left-behind")
	if order == 0 {
		verifAssert(t.closed == 1, "C12/init-failure/endpoint-already-set-up-is-closed-once")
	} else {
		verifAssert(t.closed == 0, "C12/init-failure/untouched-endpoint-untouched")
	}
	verifReach("C12/init-failure")
}

// C12, serial endpoint in reconnect back-off (one schedule): the device is opened, then lost (read error: the channel
// closes), every reopen fails and the reconnect timer has not elapsed; Close returns, every goroutine has ended and
// the event channel is closed.
func verifHarness_C12_close_backoff() {
	old := serialOpenFunc
	defer func() { serialOpenFunc = old }()
	t := &verifBlockRWC{}
	opens := 0
	serialOpenFunc = func(device string, baud int) (io.ReadWriteCloser, error) {
		opens++
		switch opens {
		case 1:
			return &verifBlockRWC{}, nil // existence check of initialize()
		case 2:
			return t, nil
		}
		verifTimersPending(true) // the reconnect delay before this attempt has elapsed, the next one has not
		return nil, verifErrSetup
	}
	n := &Node{Dialect: verifHarnessDialect, OutVersion: V2, OutSystemID: 1, HeartbeatDisable: true,
		Endpoints: []EndpointConf{EndpointSerial{Device: "x", Baud: 57600}}}
	var ierr error
	verifRunGoroutines(func() { ierr = n.Initialize() })
	verifAssert(ierr == nil, "C12/initialize-ok")
	evt := <-n.chEvent
	_, isOpen := evt.(*EventChannelOpen)
	verifAssert(isOpen, "C12/open-event-first")
	t.wake = true // the device is unplugged: Read fails
	verifRunGoroutines(nil)
	evt = <-n.chEvent
	_, isClose := evt.(*EventChannelClose)
	verifAssert(isClose, "C12/backoff/channel-closed-after-the-read-error")
	verifRunGoroutines(nil)
	verifAssert(opens == 3, "C12/backoff/provider-tried-to-reopen-once")
	stillBlocked := verifRunGoroutines(func() { n.Close() })
	verifAssert(!stillBlocked, "C12/close-returns-and-every-goroutine-has-ended")
	verifAssert(verifBlockedGoroutines() == 0, "C12/no-goroutine-left-behind")
	verifAssert(t.closed == 1, "C12/transport-or-connection-closed-exactly-once")
	_, ok := <-n.chEvent
	verifAssert(!ok, "C12/event-channel-closed")
	verifReach("C12/backoff")
}

// C12, serial endpoint with an open in flight (one schedule): Close is issued while the provider is inside the open of
// the device (the first open, when == 0, or a reopen after the device was lost, when == 1); the open then succeeds.
// Close returns once it does, every goroutine has ended, and the port that open handed out is closed exactly once.
func verifHarness_C12_close_mid_open(when int) {
	old := serialOpenFunc
	defer func() { serialOpenFunc = old }()
	t1, t2 := &verifBlockRWC{}, &verifBlockRWC{}
	opens := 0
	release := false
	serialOpenFunc = func(device string, baud int) (io.ReadWriteCloser, error) {
		opens++
		if opens == 1 {
			return &verifBlockRWC{}, nil // existence check of initialize()
		}
		if opens == 2 && when == 1 {
			return t1, nil
		}
		verifBlockUntil(&release) // the open is in progress
		return t2, nil
	}
	n := &Node{Dialect: verifHarnessDialect, OutVersion: V2, OutSystemID: 1, HeartbeatDisable: true,
		Endpoints: []EndpointConf{EndpointSerial{Device: "x", Baud: 57600}}}
	var ierr error
	verifRunGoroutines(func() { ierr = n.Initialize() })
	verifAssert(ierr == nil, "C12/initialize-ok")
	if when == 1 {
		evt := <-n.chEvent
		_, isOpen := evt.(*EventChannelOpen)
		verifAssert(isOpen, "C12/open-event-first")
		t1.wake = true // the device is unplugged: Read fails
		verifRunGoroutines(nil)
		evt = <-n.chEvent
		_, isClose := evt.(*EventChannelClose)
		verifAssert(isClose, "C12/mid-open/channel-closed-after-the-read-error")
		verifRunGoroutines(nil)
		verifAssert(opens == 3, "C12/mid-open/provider-is-reopening")
	} else {
		verifAssert(opens == 2, "C12/mid-open/provider-is-opening")
	}
	verifRunGoroutines(func() { n.Close() })
	release = true
	stillBlocked := verifRunGoroutines(nil)
	verifAssert(!stillBlocked, "C12/close-returns-and-every-goroutine-has-ended")
	verifAssert(verifBlockedGoroutines() == 0, "C12/no-goroutine-left-behind")
	verifAssert(t2.closed == 1, "C12/mid-open/port-opened-during-close-is-closed-exactly-once")
	if when == 1 {
		verifAssert(t1.closed == 1, "C12/transport-or-connection-closed-exactly-once")
	}
	for {
		_, ok := <-n.chEvent
		if !ok {
			break
		}
	}
	verifReach("C12/mid-open")
}
