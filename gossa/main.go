// gossa: front end of the gosym engine.
//
// Loads packages of the module in -dir (with an optional overlay directory
// whose files are injected in-package), builds go/ssa and dumps, as JSON, the
// SSA of every function reachable from the root functions, together with the
// type table, method tables and global declarations.
//
// Only functions in "allowed" packages are dumped with bodies; the rest appear
// as bodyless stubs and must be intrinsics of the executor.
package main

import (
	"encoding/hex"
	"encoding/json"
	"flag"
	"fmt"
	"go/constant"
	"go/token"
	"go/types"
	"math"
	"os"
	"path/filepath"
	"regexp"
	"sort"
	"strings"

	"golang.org/x/tools/go/packages"
	"golang.org/x/tools/go/ssa"
	"golang.org/x/tools/go/ssa/ssautil"
	"golang.org/x/tools/go/types/typeutil"
)

type jInstr map[string]interface{}

type jBlock struct {
	Index  int      `json:"i"`
	Instrs []jInstr `json:"ins"`
	Preds  []int    `json:"preds"`
	Succs  []int    `json:"succs"`
}

type jFunc struct {
	Name     string   `json:"name"`
	Pkg      string   `json:"pkg"`
	Short    string   `json:"short"`
	Sig      string   `json:"sig"`
	Params   []string `json:"params"`   // type ids
	PNames   []string `json:"pnames"`   // names
	FreeVars []string `json:"freevars"` // type ids
	Results  []string `json:"results"`
	NValues  int      `json:"nvalues"`
	Blocks   []jBlock `json:"blocks,omitempty"`
	HasBody  bool     `json:"hasbody"`
	File     string   `json:"file,omitempty"`
	Line     int      `json:"line,omitempty"`
	Synth    string   `json:"synth,omitempty"`
	Recover  int      `json:"recover"`
	RecvType string   `json:"recv,omitempty"`
}

type jField struct {
	Name     string `json:"name"`
	Type     string `json:"type"`
	Tag      string `json:"tag,omitempty"`
	Embedded bool   `json:"emb,omitempty"`
	Exported bool   `json:"exp,omitempty"`
}

type jType struct {
	Kind    string            `json:"k"`
	Name    string            `json:"name,omitempty"`
	Pkg     string            `json:"pkg,omitempty"`
	Bits    int               `json:"bits,omitempty"`
	Signed  bool              `json:"signed,omitempty"`
	Under   string            `json:"under,omitempty"`
	Elem    string            `json:"elem,omitempty"`
	Key     string            `json:"key,omitempty"`
	Len     int64             `json:"len,omitempty"`
	Fields  []jField          `json:"fields,omitempty"`
	Methods map[string]string `json:"methods,omitempty"` // method name -> function id (concrete types)
	IMeths  []string          `json:"imeths,omitempty"`  // interface method names
	Tuple   []string          `json:"tuple,omitempty"`
	Dir     int               `json:"dir,omitempty"`
}

type jGlobal struct {
	Name string `json:"name"`
	Type string `json:"type"` // type of the variable (not pointer)
	Pkg  string `json:"pkg"`
}

type output struct {
	Funcs    map[string]*jFunc   `json:"funcs"`
	Types    map[string]*jType   `json:"types"`
	Globals  map[string]*jGlobal `json:"globals"`
	Roots    []string            `json:"roots"`
	Inits    map[string]string   `json:"inits"` // pkg path -> init function id
	Files    map[string]string   `json:"files"` // source files of dumped functions
	PkgOrder []string            `json:"pkgorder"`
	Consts   map[string]string   `json:"consts"` // package-level integer constants pkg.Name -> value
}

type dumper struct {
	prog    *ssa.Program
	out     *output
	work    []*ssa.Function
	seen    map[*ssa.Function]bool
	allowed func(pkgPath string) bool
	mtypes  map[string]bool // types whose method sets were expanded
	canon   typeutil.Map    // identical types share one id (byte/uint8, ...)
	fset    *token.FileSet
}

func (d *dumper) addFunc(f *ssa.Function) string {
	if f == nil {
		return ""
	}
	if !d.seen[f] {
		d.seen[f] = true
		d.work = append(d.work, f)
	}
	return f.String()
}

func pkgOf(f *ssa.Function) string {
	if f.Pkg != nil {
		return f.Pkg.Pkg.Path()
	}
	if f.Origin() != nil && f.Origin().Pkg != nil {
		return f.Origin().Pkg.Pkg.Path()
	}
	if p := f.Parent(); p != nil {
		return pkgOf(p)
	}
	// wrappers: use the receiver's / object's package
	if o := f.Object(); o != nil && o.Pkg() != nil {
		return o.Pkg().Path()
	}
	return ""
}

func (d *dumper) tid(t types.Type) string {
	if t == nil {
		return ""
	}
	t = types.Unalias(t)
	switch t.(type) {
	case *types.Basic, *types.Named, *types.Pointer, *types.Slice, *types.Array, *types.Map, *types.Chan,
		*types.Struct, *types.Interface, *types.Signature, *types.Tuple, *types.TypeParam:
	default:
		id := "opaque:" + t.String()
		if _, ok := d.out.Types[id]; !ok {
			d.out.Types[id] = &jType{Kind: "other", Name: t.String()}
		}
		return id
	}
	if v := d.canon.At(t); v != nil {
		return v.(string)
	}
	id := types.TypeString(t, nil)
	for {
		if _, clash := d.out.Types[id]; !clash {
			break
		}
		id += "'"
	}
	d.canon.Set(t, id)
	jt := &jType{}
	d.out.Types[id] = jt
	switch t.(type) {
	case *types.Named, *types.Basic:
		defer d.tid(types.NewPointer(t))
	}
	switch tt := t.(type) {
	case *types.Basic:
		jt.Kind = "basic"
		jt.Name = tt.Name()
		if int(tt.Kind()) < len(types.Typ) && types.Typ[tt.Kind()] != nil {
			jt.Name = types.Typ[tt.Kind()].Name() // byte -> uint8, rune -> int32
		}
		switch tt.Kind() {
		case types.Int8:
			jt.Bits, jt.Signed = 8, true
		case types.Int16:
			jt.Bits, jt.Signed = 16, true
		case types.Int32:
			jt.Bits, jt.Signed = 32, true
		case types.Int64, types.Int, types.UntypedInt, types.UntypedRune:
			jt.Bits, jt.Signed = 64, true
		case types.Uint8:
			jt.Bits = 8
		case types.Uint16:
			jt.Bits = 16
		case types.Uint32:
			jt.Bits = 32
		case types.Uint64, types.Uint, types.Uintptr:
			jt.Bits = 64
		case types.Float32:
			jt.Bits = 32
		case types.Float64, types.UntypedFloat:
			jt.Bits = 64
		}
		if tt.Kind() == types.UntypedRune {
			jt.Bits = 32
		}
	case *types.Named:
		jt.Kind = "named"
		jt.Name = tt.Obj().Name()
		if tt.Obj().Pkg() != nil {
			jt.Pkg = tt.Obj().Pkg().Path()
		}
		jt.Under = d.tid(tt.Underlying())
	case *types.Pointer:
		jt.Kind = "ptr"
		jt.Elem = d.tid(tt.Elem())
	case *types.Slice:
		jt.Kind = "slice"
		jt.Elem = d.tid(tt.Elem())
	case *types.Array:
		jt.Kind = "array"
		jt.Elem = d.tid(tt.Elem())
		jt.Len = tt.Len()
	case *types.Map:
		jt.Kind = "map"
		jt.Key = d.tid(tt.Key())
		jt.Elem = d.tid(tt.Elem())
	case *types.Chan:
		jt.Kind = "chan"
		jt.Elem = d.tid(tt.Elem())
		jt.Dir = int(tt.Dir())
	case *types.Struct:
		jt.Kind = "struct"
		for i := 0; i < tt.NumFields(); i++ {
			f := tt.Field(i)
			jt.Fields = append(jt.Fields, jField{
				Name: f.Name(), Type: d.tid(f.Type()), Tag: tt.Tag(i),
				Embedded: f.Embedded(), Exported: f.Exported(),
			})
		}
	case *types.Interface:
		jt.Kind = "iface"
		jt.IMeths = []string{}
		for i := 0; i < tt.NumMethods(); i++ {
			m := tt.Method(i)
			name := m.Name()
			if !m.Exported() && m.Pkg() != nil {
				name = m.Pkg().Path() + "." + name
			}
			jt.IMeths = append(jt.IMeths, name)
		}
	case *types.Signature:
		jt.Kind = "func"
	case *types.Tuple:
		jt.Kind = "tuple"
		jt.Tuple = []string{}
		for i := 0; i < tt.Len(); i++ {
			jt.Tuple = append(jt.Tuple, d.tid(tt.At(i).Type()))
		}
	case *types.TypeParam:
		jt.Kind = "typeparam"
	default:
		jt.Kind = "other"
		jt.Name = fmt.Sprintf("%T", t)
	}
	return id
}

// expandMethods records the method table of a concrete type that may become
// the dynamic type of an interface value.
func (d *dumper) expandMethods(t types.Type) {
	t = types.Unalias(t)
	if types.IsInterface(t) {
		return
	}
	id := d.tid(t)
	if d.mtypes[id] {
		return
	}
	d.mtypes[id] = true
	jt := d.out.Types[id]
	ms := d.prog.MethodSets.MethodSet(t)
	if ms.Len() > 0 {
		jt.Methods = map[string]string{}
	}
	for i := 0; i < ms.Len(); i++ {
		sel := ms.At(i)
		fn := d.prog.MethodValue(sel)
		if fn == nil {
			continue
		}
		name := sel.Obj().Name()
		if !sel.Obj().Exported() && sel.Obj().Pkg() != nil {
			name = sel.Obj().Pkg().Path() + "." + name
		}
		jt.Methods[name] = d.addFunc(fn)
	}
	// a pointer to a named type can also be reached via reflect.New / address-of
	if _, isPtr := t.(*types.Pointer); !isPtr {
		if _, isNamed := t.(*types.Named); isNamed {
			d.expandMethods(types.NewPointer(t))
		}
	} else {
		// element struct fields that are themselves stored in interfaces are found via MakeInterface
	}
}

func (d *dumper) operand(f *ssa.Function, vals map[ssa.Value]int, v ssa.Value) interface{} {
	if v == nil {
		return nil
	}
	if i, ok := vals[v]; ok {
		return i
	}
	switch vv := v.(type) {
	case *ssa.Const:
		t := d.tid(vv.Type())
		if vv.Value == nil {
			return map[string]interface{}{"nil": 1, "t": t}
		}
		switch vv.Value.Kind() {
		case constant.Bool:
			return map[string]interface{}{"cb": constant.BoolVal(vv.Value), "t": t}
		case constant.String:
			return map[string]interface{}{"cs": hex.EncodeToString([]byte(constant.StringVal(vv.Value))), "t": t}
		case constant.Int:
			// may be used at float type
			if b, ok := types.Unalias(vv.Type()).Underlying().(*types.Basic); ok && b.Info()&types.IsFloat != 0 {
				fv, _ := constant.Float64Val(vv.Value)
				return floatConst(b, fv, t)
			}
			return map[string]interface{}{"ci": vv.Value.ExactString(), "t": t}
		case constant.Float:
			b, _ := types.Unalias(vv.Type()).Underlying().(*types.Basic)
			fv, _ := constant.Float64Val(vv.Value)
			if b != nil && b.Info()&types.IsInteger != 0 {
				iv, _ := constant.Int64Val(constant.ToInt(vv.Value))
				return map[string]interface{}{"ci": fmt.Sprint(iv), "t": t}
			}
			return floatConst(b, fv, t)
		default:
			return map[string]interface{}{"cx": vv.Value.String(), "t": t}
		}
	case *ssa.Global:
		d.addGlobal(vv)
		return map[string]interface{}{"g": globalName(vv)}
	case *ssa.Function:
		return map[string]interface{}{"fn": d.addFunc(vv)}
	case *ssa.Builtin:
		return map[string]interface{}{"b": vv.Name()}
	}
	return map[string]interface{}{"unknown": fmt.Sprintf("%T %s", v, v.Name())}
}

func floatConst(b *types.Basic, fv float64, t string) interface{} {
	if b != nil && b.Kind() == types.Float32 {
		return map[string]interface{}{"cf": fmt.Sprint(math.Float32bits(float32(fv))), "t": t}
	}
	return map[string]interface{}{"cf": fmt.Sprint(math.Float64bits(fv)), "t": t}
}

func globalName(g *ssa.Global) string {
	if g.Pkg != nil {
		return g.Pkg.Pkg.Path() + "." + g.Name()
	}
	return g.Name()
}

func (d *dumper) addGlobal(g *ssa.Global) {
	n := globalName(g)
	if _, ok := d.out.Globals[n]; ok {
		return
	}
	pt := g.Type().(*types.Pointer)
	pk := ""
	if g.Pkg != nil {
		pk = g.Pkg.Pkg.Path()
	}
	d.out.Globals[n] = &jGlobal{Name: n, Type: d.tid(pt.Elem()), Pkg: pk}
	d.tid(g.Type())
}

func (d *dumper) dumpFunc(f *ssa.Function) {
	jf := &jFunc{Name: f.String(), Pkg: pkgOf(f), Short: f.Name(), Sig: f.Signature.String(), Synth: f.Synthetic, Recover: -1}
	d.out.Funcs[jf.Name] = jf
	if f.Signature.Recv() != nil {
		jf.RecvType = d.tid(f.Signature.Recv().Type())
	}
	for i := 0; i < f.Signature.Results().Len(); i++ {
		jf.Results = append(jf.Results, d.tid(f.Signature.Results().At(i).Type()))
	}
	if f.Pos().IsValid() {
		p := d.fset.Position(f.Pos())
		jf.File, jf.Line = p.Filename, p.Line
	}
	if len(f.Blocks) == 0 || !d.allowed(jf.Pkg) {
		// still record parameter types for intrinsics
		for _, p := range f.Params {
			jf.Params = append(jf.Params, d.tid(p.Type()))
			jf.PNames = append(jf.PNames, p.Name())
		}
		if len(f.Params) == 0 {
			if f.Signature.Recv() != nil {
				jf.Params = append(jf.Params, d.tid(f.Signature.Recv().Type()))
			}
			for i := 0; i < f.Signature.Params().Len(); i++ {
				jf.Params = append(jf.Params, d.tid(f.Signature.Params().At(i).Type()))
			}
		}
		return
	}
	jf.HasBody = true
	if jf.File != "" {
		d.out.Files[jf.File] = ""
	}
	vals := map[ssa.Value]int{}
	n := 0
	for _, p := range f.Params {
		vals[p] = n
		n++
		jf.Params = append(jf.Params, d.tid(p.Type()))
		jf.PNames = append(jf.PNames, p.Name())
	}
	for _, fv := range f.FreeVars {
		vals[fv] = n
		n++
		jf.FreeVars = append(jf.FreeVars, d.tid(fv.Type()))
	}
	for _, b := range f.Blocks {
		for _, ins := range b.Instrs {
			if v, ok := ins.(ssa.Value); ok {
				vals[v] = n
				n++
			}
		}
	}
	jf.NValues = n
	if f.Recover != nil {
		jf.Recover = f.Recover.Index
	}
	op := func(v ssa.Value) interface{} { return d.operand(f, vals, v) }
	ops := func(vs []ssa.Value) []interface{} {
		r := make([]interface{}, len(vs))
		for i, v := range vs {
			r[i] = op(v)
		}
		return r
	}
	callCommon := func(c *ssa.CallCommon, ji jInstr) {
		if c.IsInvoke() {
			ji["invoke"] = true
			name := c.Method.Name()
			if !c.Method.Exported() && c.Method.Pkg() != nil {
				name = c.Method.Pkg().Path() + "." + name
			}
			ji["method"] = name
			ji["recv"] = op(c.Value)
			ji["recvt"] = d.tid(c.Value.Type())
		} else {
			ji["fnv"] = op(c.Value)
		}
		ji["args"] = ops(c.Args)
		at := make([]string, len(c.Args))
		for i, a := range c.Args {
			at[i] = d.tid(a.Type())
		}
		ji["argt"] = at
		ji["rt"] = d.tid(c.Signature().Results())
		ji["nres"] = c.Signature().Results().Len()
	}
	for _, b := range f.Blocks {
		jb := jBlock{Index: b.Index}
		for _, p := range b.Preds {
			jb.Preds = append(jb.Preds, p.Index)
		}
		for _, s := range b.Succs {
			jb.Succs = append(jb.Succs, s.Index)
		}
		for _, ins := range b.Instrs {
			ji := jInstr{}
			if v, ok := ins.(ssa.Value); ok {
				ji["r"] = vals[v]
				ji["t"] = d.tid(v.Type())
			}
			if ins.Pos().IsValid() {
				ji["ln"] = d.fset.Position(ins.Pos()).Line
			}
			switch i := ins.(type) {
			case *ssa.Alloc:
				ji["op"] = "Alloc"
				ji["heap"] = i.Heap
				ji["et"] = d.tid(i.Type().(*types.Pointer).Elem())
			case *ssa.BinOp:
				ji["op"] = "BinOp"
				ji["bop"] = i.Op.String()
				ji["x"] = op(i.X)
				ji["y"] = op(i.Y)
				ji["xt"] = d.tid(i.X.Type())
				ji["yt"] = d.tid(i.Y.Type())
			case *ssa.UnOp:
				ji["op"] = "UnOp"
				ji["uop"] = i.Op.String()
				ji["x"] = op(i.X)
				ji["xt"] = d.tid(i.X.Type())
				ji["commaok"] = i.CommaOk
			case *ssa.Call:
				ji["op"] = "Call"
				callCommon(&i.Call, ji)
			case *ssa.Go:
				ji["op"] = "Go"
				callCommon(&i.Call, ji)
			case *ssa.Defer:
				ji["op"] = "Defer"
				callCommon(&i.Call, ji)
			case *ssa.ChangeInterface:
				ji["op"] = "ChangeInterface"
				ji["x"] = op(i.X)
			case *ssa.ChangeType:
				ji["op"] = "ChangeType"
				ji["x"] = op(i.X)
			case *ssa.Convert:
				ji["op"] = "Convert"
				ji["x"] = op(i.X)
				ji["xt"] = d.tid(i.X.Type())
			case *ssa.MultiConvert:
				ji["op"] = "Convert"
				ji["x"] = op(i.X)
				ji["xt"] = d.tid(i.X.Type())
			case *ssa.Extract:
				ji["op"] = "Extract"
				ji["x"] = op(i.Tuple)
				ji["idx"] = i.Index
			case *ssa.Field:
				ji["op"] = "Field"
				ji["x"] = op(i.X)
				ji["idx"] = i.Field
			case *ssa.FieldAddr:
				ji["op"] = "FieldAddr"
				ji["x"] = op(i.X)
				ji["idx"] = i.Field
			case *ssa.If:
				ji["op"] = "If"
				ji["x"] = op(i.Cond)
			case *ssa.Index:
				ji["op"] = "Index"
				ji["x"] = op(i.X)
				ji["y"] = op(i.Index)
				ji["xt"] = d.tid(i.X.Type())
			case *ssa.IndexAddr:
				ji["op"] = "IndexAddr"
				ji["x"] = op(i.X)
				ji["y"] = op(i.Index)
				ji["xt"] = d.tid(i.X.Type())
			case *ssa.Jump:
				ji["op"] = "Jump"
			case *ssa.Lookup:
				ji["op"] = "Lookup"
				ji["x"] = op(i.X)
				ji["y"] = op(i.Index)
				ji["xt"] = d.tid(i.X.Type())
				ji["commaok"] = i.CommaOk
			case *ssa.MakeChan:
				ji["op"] = "MakeChan"
				ji["x"] = op(i.Size)
			case *ssa.MakeClosure:
				ji["op"] = "MakeClosure"
				ji["fnv"] = op(i.Fn)
				ji["args"] = ops(i.Bindings)
			case *ssa.MakeInterface:
				ji["op"] = "MakeInterface"
				ji["x"] = op(i.X)
				ji["xt"] = d.tid(i.X.Type())
				d.expandMethods(i.X.Type())
			case *ssa.MakeMap:
				ji["op"] = "MakeMap"
			case *ssa.MakeSlice:
				ji["op"] = "MakeSlice"
				ji["x"] = op(i.Len)
				ji["y"] = op(i.Cap)
			case *ssa.MapUpdate:
				ji["op"] = "MapUpdate"
				ji["m"] = op(i.Map)
				ji["x"] = op(i.Key)
				ji["y"] = op(i.Value)
			case *ssa.Next:
				ji["op"] = "Next"
				ji["x"] = op(i.Iter)
				ji["isstr"] = i.IsString
			case *ssa.Panic:
				ji["op"] = "Panic"
				ji["x"] = op(i.X)
			case *ssa.Phi:
				ji["op"] = "Phi"
				ji["edges"] = ops(i.Edges)
			case *ssa.Range:
				ji["op"] = "Range"
				ji["x"] = op(i.X)
				ji["xt"] = d.tid(i.X.Type())
			case *ssa.Return:
				ji["op"] = "Return"
				ji["args"] = ops(i.Results)
			case *ssa.RunDefers:
				ji["op"] = "RunDefers"
			case *ssa.Select:
				ji["op"] = "Select"
				ji["blocking"] = i.Blocking
				var sts []map[string]interface{}
				for _, st := range i.States {
					s := map[string]interface{}{"dir": int(st.Dir), "chan": op(st.Chan)}
					if st.Send != nil {
						s["send"] = op(st.Send)
					}
					sts = append(sts, s)
				}
				ji["states"] = sts
			case *ssa.Send:
				ji["op"] = "Send"
				ji["x"] = op(i.Chan)
				ji["y"] = op(i.X)
			case *ssa.Slice:
				ji["op"] = "Slice"
				ji["x"] = op(i.X)
				ji["xt"] = d.tid(i.X.Type())
				ji["lo"] = op(i.Low)
				ji["hi"] = op(i.High)
				ji["max"] = op(i.Max)
			case *ssa.SliceToArrayPointer:
				ji["op"] = "SliceToArrayPointer"
				ji["x"] = op(i.X)
			case *ssa.Store:
				ji["op"] = "Store"
				ji["x"] = op(i.Addr)
				ji["y"] = op(i.Val)
			case *ssa.TypeAssert:
				ji["op"] = "TypeAssert"
				ji["x"] = op(i.X)
				ji["at"] = d.tid(i.AssertedType)
				ji["commaok"] = i.CommaOk
				if !types.IsInterface(i.AssertedType) {
					d.expandMethods(i.AssertedType)
				}
			case *ssa.DebugRef:
				continue
			default:
				ji["op"] = fmt.Sprintf("UNSUPPORTED:%T", ins)
			}
			jb.Instrs = append(jb.Instrs, ji)
		}
		jf.Blocks = append(jf.Blocks, jb)
	}
}

func main() {
	dir := flag.String("dir", "/repo", "module directory")
	overlayDir := flag.String("overlay", "", "directory mirroring -dir whose files are overlaid")
	pkgsFlag := flag.String("pkgs", ".", "comma separated package patterns")
	rootsFlag := flag.String("roots", "", "comma separated regexps matched against function full names (roots)")
	allowFlag := flag.String("allow", "", "comma separated package path prefixes (in addition to the module) dumped with bodies")
	initsFlag := flag.String("inits", "", "comma separated package paths whose init is a root")
	extraTypes := flag.String("mtypes", "", "comma separated regexps: named types (pkgpath.Name) whose method sets are expanded even without MakeInterface")
	outFlag := flag.String("out", "", "output file")
	tests := flag.Bool("tests", false, "load test files too")
	flag.Parse()

	cfg := &packages.Config{
		Mode:  packages.LoadAllSyntax | packages.NeedModule,
		Dir:   *dir,
		Tests: *tests,
		Env:   append(os.Environ(), "GOFLAGS=-mod=mod", "GOPROXY=off", "GOSUMDB=off"),
	}
	if *overlayDir != "" {
		cfg.Overlay = map[string][]byte{}
		filepath.Walk(*overlayDir, func(p string, info os.FileInfo, err error) error {
			if err != nil || info.IsDir() || !strings.HasSuffix(p, ".go") {
				return nil
			}
			rel, _ := filepath.Rel(*overlayDir, p)
			data, _ := os.ReadFile(p)
			cfg.Overlay[filepath.Join(*dir, rel)] = data
			return nil
		})
	}
	initial, err := packages.Load(cfg, strings.Split(*pkgsFlag, ",")...)
	if err != nil {
		fmt.Fprintln(os.Stderr, "load:", err)
		os.Exit(2)
	}
	if packages.PrintErrors(initial) > 0 {
		os.Exit(2)
	}
	prog, pkgs := ssautil.AllPackages(initial, ssa.InstantiateGenerics)
	prog.Build()
	_ = pkgs

	modPath := ""
	for _, p := range initial {
		if p.Module != nil {
			modPath = p.Module.Path
			break
		}
	}
	allowPrefixes := []string{}
	if modPath != "" {
		allowPrefixes = append(allowPrefixes, modPath)
	}
	for _, a := range strings.Split(*allowFlag, ",") {
		if a != "" {
			allowPrefixes = append(allowPrefixes, a)
		}
	}
	allowed := func(p string) bool {
		for _, a := range allowPrefixes {
			if p == a || strings.HasPrefix(p, a+"/") {
				return true
			}
		}
		return false
	}

	d := &dumper{
		prog: prog, fset: prog.Fset, seen: map[*ssa.Function]bool{}, allowed: allowed, mtypes: map[string]bool{},
		out: &output{
			Funcs: map[string]*jFunc{}, Types: map[string]*jType{}, Globals: map[string]*jGlobal{},
			Inits: map[string]string{}, Files: map[string]string{}, Consts: map[string]string{},
		},
	}

	var rootRes []*regexp.Regexp
	for _, r := range strings.Split(*rootsFlag, ",") {
		if r != "" {
			rootRes = append(rootRes, regexp.MustCompile(r))
		}
	}
	var mtRes []*regexp.Regexp
	for _, r := range strings.Split(*extraTypes, ",") {
		if r != "" {
			mtRes = append(mtRes, regexp.MustCompile(r))
		}
	}
	initPkgs := map[string]bool{}
	for _, p := range strings.Split(*initsFlag, ",") {
		if p != "" {
			initPkgs[p] = true
		}
	}

	// roots
	all := ssautil.AllFunctions(prog)
	var names []string
	byName := map[string]*ssa.Function{}
	for f := range all {
		names = append(names, f.String())
		byName[f.String()] = f
	}
	sort.Strings(names)
	for _, n := range names {
		for _, re := range rootRes {
			if re.MatchString(n) {
				d.out.Roots = append(d.out.Roots, d.addFunc(byName[n]))
				break
			}
		}
	}
	for _, p := range prog.AllPackages() {
		path := p.Pkg.Path()
		if initPkgs[path] {
			if f := p.Func("init"); f != nil {
				d.out.Inits[path] = d.addFunc(f)
			}
		}
		if len(mtRes) > 0 {
			for _, m := range p.Members {
				if t, ok := m.(*ssa.Type); ok {
					full := path + "." + t.Name()
					for _, re := range mtRes {
						if re.MatchString(full) {
							d.expandMethods(t.Type())
						}
					}
				}
			}
		}
		if allowed(path) || initPkgs[path] {
			for _, m := range p.Members {
				if c, ok := m.(*ssa.NamedConst); ok && c.Value != nil && c.Value.Value != nil && c.Value.Value.Kind() == constant.Int {
					d.out.Consts[path+"."+c.Name()] = c.Value.Value.ExactString()
				}
			}
		}
	}
	// package order (dependency order) for init execution
	{
		seenP := map[string]bool{}
		var visit func(p *types.Package)
		visit = func(p *types.Package) {
			if seenP[p.Path()] {
				return
			}
			seenP[p.Path()] = true
			for _, imp := range p.Imports() {
				visit(imp)
			}
			d.out.PkgOrder = append(d.out.PkgOrder, p.Path())
		}
		for _, p := range prog.AllPackages() {
			visit(p.Pkg)
		}
	}

	for len(d.work) > 0 {
		f := d.work[len(d.work)-1]
		d.work = d.work[:len(d.work)-1]
		d.dumpFunc(f)
	}

	for fn := range d.out.Files {
		if data, err := os.ReadFile(fn); err == nil {
			_ = data
		}
	}

	enc, err := json.Marshal(d.out)
	if err != nil {
		fmt.Fprintln(os.Stderr, "marshal:", err)
		os.Exit(2)
	}
	if *outFlag == "" {
		os.Stdout.Write(enc)
	} else if err := os.WriteFile(*outFlag, enc, 0o644); err != nil {
		fmt.Fprintln(os.Stderr, err)
		os.Exit(2)
	}
	fmt.Fprintf(os.Stderr, "gossa: %d functions (%d with bodies), %d types, %d globals, %d roots\n",
		len(d.out.Funcs), countBodies(d.out), len(d.out.Types), len(d.out.Globals), len(d.out.Roots))
}

func countBodies(o *output) int {
	n := 0
	for _, f := range o.Funcs {
		if f.HasBody {
			n++
		}
	}
	return n
}
