"""C09 — originated frames: identity, version, checksum, gapless sequence numbers."""
from gosym.check import Task

ID = 'C09'
PKG = 'pkg/streamwriter'
HARNESS_FILES = ['pkg/frame/zz_verif_common.go', 'pkg/frame/zz_verif_dialect.go', 'pkg/frame/zz_verif_c02.go',
                 'pkg/frame/zz_verif_c05.go', 'pkg/frame/zz_verif_c06.go', 'pkg/frame/zz_verif_export.go',
                 'pkg/frame/zz_verif_msgs.go', 'pkg/frame/zz_verif_c09f.go', 'pkg/streamwriter/zz_verif_c09.go', 'zz_verif_node.go', 'zz_verif_c11.go', 'zz_verif_c09n.go']
KERNEL_PKGS = ['.']
NATIVE_ROOT_PREFIXES = ('verifHarness_C09_', 'verifHarness_C07_')
CLOCK_PKGS = ['pkg/streamwriter']
ROOTS = ['streamwriter.verifHarness_', r'v3\.verifHarness_C11_drain', r'v3\.verifHarness_C09_node_init', r'frame\.verifHarness_C09_frame']
TAG_FILTER = ('C09/', 'C07/', 'C11/K3/')
ALLOW = 'bufio,io,encoding/binary,errors,bytes'
INITS = 'io,bufio,errors,github.com/bluenviron/gomavlib/v3/pkg/message,github.com/bluenviron/gomavlib/v3/pkg/frame'
OPTIONS = {'x25_uf': True, 'now_stub': True}
ANCHOR_FILES = ['/repo/pkg/streamwriter/writer.go', '/repo/pkg/frame/writer.go', '/repo/channel.go', '/repo/node.go']


def tasks(tier):
    ts = []
    for version, keyed in ((1, 0), (2, 0), (2, 1)):
        for shape in range(4):
            strlens = [2] if shape != 1 else ([0, 2, 4, 5] if tier == 'quick' else [0, 1, 2, 3, 4, 5, 6])
            for sl in strlens:
                for raw in (0, 1):
                    ts.append(Task('verifHarness_C09_step', [version, keyed, shape, sl, raw]))
        ts.append(Task('verifHarness_C09_three', [version, keyed]))
    for raw in (0, 1):
        ts.append(Task('verifHarness_C09_wide_id', [raw]))
    # frames originated by a node (encode in the caller, then the channel's stream writer): both link versions
    for version in (1, 2):
        for a in range(3):
            ts.append(Task('verifHarness_C11_drain', [version, a], pkg='.'))
    ts.append(Task('verifHarness_C09_init', []))
    for kind in (0, 1, 2, 3):
        for via in (0, 1):
            ts.append(Task('verifHarness_C09_node_init', [kind, via], pkg='.'))
    for via in (0, 1, 2):
        ts.append(Task('verifHarness_C09_frame_conf', [via], pkg='pkg/frame'))
    for version in (0, 1, 2):
        for shape in range(4):
            ts.append(Task('verifHarness_C09_framewriter_message', [version, shape], pkg='pkg/frame'))
    for raw in (0, 1, 2):
        ts.append(Task('verifHarness_C09_v1_big_id', [raw]))
    for version in (1, 2):
        for kind in (0, 1, 2):
            ts.append(Task('verifHarness_C09_gapless', [version, kind]))
    return ts


def required_reach(tier):
    return ['C09/S', 'C09/M', 'C09/I', 'C09/V', 'C09/W', 'C11/K3', 'C09/N', 'C09/P', 'C09/G', 'C09/FW']


def bounds(tier):
    return {'step': 'one Write from an arbitrary sequence-counter state (all 256 values at once), arbitrary system id >= 1, component id, '
                    'link id, key bytes, clock reading; message = arbitrary value of each of the 4 harness shapes (decoded or pre-encoded); '
                    'histories of any length follow by induction on nextSeqNumber',
            'wide_ids': 'a dialect message with any id in (255, 2^24) on a v2 link, decoded or pre-encoded', 'node_level': 'Node.encodeMessage + Channel.runWriter draining 3 items on v1 and v2 links (kernel K3 of C11)',
            'crosscheck': '3 consecutive writes of mixed shapes from a fresh writer',
            'node_init': 'Node.Initialize and the deprecated NewNode(NodeConf): every valid configuration (version, system id, component id, keys, heartbeat / stream-request / timeout settings symbolic) is accepted and reaches the node and a new channel\'s stream writer unchanged (component id 1 when unset); a missing version, a zero system id and a key with version 1 are refused',
            'frame_constructors': 'frame.NewReadWriter / ReadWriter.Initialize / NewReader + NewWriter: dialect, keys, version, system id, component id (1 when unset), link id symbolic: the reader and writer hold exactly what was configured',
            'gapless_over_refusals': 'from an arbitrary counter state: a refused write (nil message, message outside the dialect, v1 id > 255) consumes no sequence number and emits nothing; the next accepted frame carries the next number; also after a transport failure the next frame carries the counter\'s number (both versions)',
            'frame_writer_message_path': 'frame.Writer.WriteMessage without a key, version unset / 1 / 2, 4 shapes, arbitrary ids and counter state: the spec frame, counter + 1',
            'init': 'every (version int, system id, component id, key present/absent)',
            'string_lengths': 'shape 1 string lengths 0,2,4,5 (quick) / 0..6 (thorough), bytes symbolic'}


OUTSIDE = ['that heartbeats and stream requests reach the stream writer (goroutine plumbing; sequential kernels in C11/C16)',
           'message types other than the harness dialect (layout of shipped types: C03/C04)']
STUBS = ['x25 summarised by crcstep (C02 lemmas)', 'sha256 uninterpreted', 'time.Since: arbitrary non-decreasing clock reading in [0, 2^48 * 10 us) (years 2015..2104)',
         'message.(*ReadWriter).Initialize executed from real SSA with reflect intrinsics']
ASSUMPTIONS = ['go/ssa faithfully represents the compiled code', 'gosym implements SSA semantics (validated by native replay)', 'z3 is sound',
               'the wall clock is not set backwards']
