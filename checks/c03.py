"""C03 — message payload layout, sizes and CRC_EXTRA follow the MAVLink spec."""
from . import msgs_common as MC

ID = 'C03'
PKG = 'pkg/dialects/common'
HARNESS_FILES = []
ALLOW = MC.ALLOW
INITS = MC.INITS
OPTIONS = {}
TAG_FILTER = ('C03/',)
SLICE_S = 5
OBS_SAMPLES = 1
MAX_VALIDATE = 60
NATIVE_PKGS_MAX = 3
ANCHOR_FILES = ['/repo/pkg/message/readwriter.go']
_state = {}


def prepare(tier, work):
    p = MC.prepare(tier, work, 'M')
    _state['msgs'] = p['msgs']
    return p


def tasks(tier):
    return MC.m_tasks(_state['msgs'], tier)


def required_reach(tier):
    return ['M']


def bounds(tier):
    return {'types': 'all %d message struct definitions of the shipped dialect packages' % len(_state.get('msgs', [])),
            'values': 'every field value symbolic at once (each array element; enum fields over all 64 bits; floats as bit patterns)',
            'strings': 'every string value of length 2 (bytes symbolic)' + (
                '; plus declared length + 1 for single-string messages up to char[32]' if tier == 'quick'
                else '; lengths 0, 1, declared, declared+1 for single-string messages (<= 2 otherwise)'),
            'v2_truncation': 'trailing-zero classes: none / all zero / exactly one / (thorough: exactly two; unconstrained for messages <= 64 bytes)',
            'crc_extra_and_sizes': 'ground obligations: CRC_EXTRA constant and layout length compared with the values an independent '
                                   'implementation of the MAVLink rules (checks/gen_msgs.py) derives from the struct declaration'}


OUTSIDE = ['user-defined structs other than the shipped ones and the harness dialect of C02/C08/C09 (reflection over a symbolic type is out of reach)',
           'the sort comparator lemma (strict total order = spec order for any struct with extensions after base fields) is not mechanised in this run',
           'structs larger than 255 bytes']
STUBS = ['message.(*ReadWriter).Initialize/Read/Write executed from real SSA; reflect.* as intrinsics over the static type table; '
         'regexp/strings/strconv/sort.Slice intrinsics on concrete arguments', 'real x25 executed concretely for CRC_EXTRA']
ASSUMPTIONS = ['go/ssa faithfully represents the compiled code', 'gosym implements SSA semantics (validated by native replay)', 'z3 is sound',
               'checks/gen_msgs.py implements the MAVLink field-reordering / CRC_EXTRA rules (plain char fields carry no array length in the seed)']
