"""C03 — message payload layout, sizes and CRC_EXTRA follow the MAVLink spec."""
from . import msgs_common as MC

ID = 'C03'
PKG = 'pkg/dialects/common'
HARNESS_FILES = ['pkg/message/zz_verif_c03.go', 'pkg/message/zzverifalt/zz_verif_alt.go']
ALLOW = MC.ALLOW
INITS = MC.INITS
OPTIONS = {}
TAG_FILTER = ('C03/',)
SLICE_S = 3
OBS_SAMPLES = 1
MAX_VALIDATE = 60
NATIVE_PKGS_MAX = 3
ANCHOR_FILES = ['/repo/pkg/message/readwriter.go']
_state = {}


def prepare(tier, work):
    p = MC.prepare(tier, work, 'M')
    _state['msgs'] = p['msgs']
    return prepare_groups(p)


def prepare_groups(p):
    p['groups'].append({'name': 'pkg/message', 'pkgs': ['pkg/message'], 'roots': [r'message\.verifHarness_C03_']})
    return p


def tasks(tier):
    from gosym.check import Task
    return MC.m_tasks(_state['msgs'], tier) + [Task('verifHarness_C03_user', [v], pkg='pkg/message', group='pkg/message') for v in (0, 1)] + [Task('verifHarness_C03_same_name', [o], pkg='pkg/message', group='pkg/message') for o in (0, 1)] + [Task('verifHarness_C03_order', [], {'sort_lemma': True, 'sort_lemma_types': [1, 4, 7, 9, 11] if tier == 'quick' else None},
                                                  pkg='pkg/message', group='pkg/message')]


def required_reach(tier):
    return ['M', 'C03/order', 'C03/U', 'C03/N']


def bounds(tier):
    return {'types': 'all %d message struct definitions of the shipped dialect packages' % len(_state.get('msgs', [])),
            'values': 'every field value symbolic at once (each array element; enum fields over all 64 bits; floats as bit patterns)',
            'strings': 'every string value of length 2 (bytes symbolic); for messages with several strings: one string 3 bytes longer than its field at a time, the others 1 byte' + (
                '; plus declared length + 1 for single-string messages up to char[32]' if tier == 'quick'
                else '; lengths 0, 1, declared, declared+1 for single-string messages (<= 2 otherwise)'),
            'v2_truncation': 'trailing-zero classes: none / all zero / exactly one / (thorough: exactly two; unconstrained for messages <= 64 bytes)',
            'user_struct': 'one hand-specified user struct with a one-element array, a single char, a char[1], a mavname, an int32 enum and an extension array: CRC_EXTRA, sizes and layout for arbitrary values',
            'order_lemma': 'the real comparator closure of Initialize on three field descriptors with type in ' + ('{double, float, uint16, uint8, char}' if tier == 'quick' else 'all 11 field types') + ' (forked), symbolic index and extension flag '
                           '(extensions after base fields): strict total order equal to the MAVLink order; unbounded in the number of fields',
            'crc_extra_and_sizes': 'ground obligations: CRC_EXTRA constant and layout length compared with the values an independent '
                                   'implementation of the MAVLink rules (checks/gen_msgs.py) derives from the struct declaration'}


OUTSIDE = ['user-defined structs other than the shipped ones and the harness dialect of C02/C08/C09 (reflection over a symbolic type is out of reach)',
           'structs larger than 255 bytes']
STUBS = ['message.(*ReadWriter).Initialize/Read/Write executed from real SSA; reflect.* as intrinsics over the static type table; '
         'regexp/strings/strconv/sort.Slice intrinsics on concrete arguments', 'real x25 executed concretely for CRC_EXTRA']
ASSUMPTIONS = ['go/ssa faithfully represents the compiled code', 'gosym implements SSA semantics (validated by native replay)', 'z3 is sound',
               'checks/gen_msgs.py implements the MAVLink field-reordering / CRC_EXTRA rules (plain char fields carry no array length in the seed)']
