"""C17 — shipped dialects are well-formed and mutually consistent."""
import glob
import json
import os
import re

from gosym.check import Task, MODPATH
from gosym import run as R
from . import gen_msgs

ID = 'C17'
PKG = 'pkg/dialects/common'
HARNESS_FILES = ['pkg/dialect/zz_verif_c17.go']
ALLOW = 'errors'
INITS = 'errors,github.com/bluenviron/gomavlib/v3/pkg/message'
OPTIONS = {}
SLICE_S = 8
OBS_SAMPLES = 0
MAX_PATHS_PER_TASK = 100000
ANCHOR_FILES = ['/repo/pkg/dialect/readwriter.go', '/repo/pkg/dialect/dialect.go', '/repo/pkg/message/readwriter.go']
_state = {}

HARNESS = '''package PKGNAME

import (
	"github.com/bluenviron/gomavlib/v3/pkg/dialect"
)

// id -> CRC_EXTRA derived from the struct declarations by checks/gen_msgs.py (independent implementation of the rules)
var verifSpecCRC = map[uint32]byte{
SPECCRC
}

var verifRW *dialect.ReadWriter
var verifInitErr error

// run once (concretely) before the paths: the real Initialize of the shipped dialect
func verifSetupDialect() {
	verifRW = &dialect.ReadWriter{Dialect: Dialect}
	verifInitErr = verifRW.Initialize()
}

// D1: for every 32-bit id, the lookup returns the codec of the message with that id, and nothing for ids the
// dialect does not declare
func verifHarness_C17_lookup() {
	if verifRW == nil {
		verifSetupDialect() // native replay: the executor runs this once before the paths
	}
	verifAssert(verifInitErr == nil, "C17/dialect-initializes")
	id := verifNondetU32()
	// the answer does not depend on what was looked up before: a declared id first (a hit), then the id under test,
	// twice
	if len(Dialect.Messages) > 0 {
		first := Dialect.Messages[0].GetID()
		verifAssert(verifRW.GetMessage(first) != nil, "C17/first-message-found")
	}
	mp0 := verifRW.GetMessage(id)
	mp := verifRW.GetMessage(id)
	verifAssert(mp == mp0, "C17/lookup-is-repeatable")
	declared := false
	for _, m := range Dialect.Messages {
		declared = verifOr(declared, m.GetID() == id)
	}
	verifAssert(verifIff(mp != nil, declared), "C17/lookup-finds-exactly-the-declared-ids")
	if mp != nil {
		verifAssert(mp.Message.GetID() == id, "C17/lookup-returns-the-message-with-that-id")
		// CRC_EXTRA of the codec served for this id = the value the MAVLink rules derive from the definition
		want, known := verifSpecCRC[id]
		verifAssert(known, "C17/spec-table-knows-every-declared-id")
		verifAssert(mp.CRCExtra() == want, "C17/crc-extra-is-spec-value")
	}
	verifReach("C17/D1")
}
'''


def dialect_dirs():
    return sorted(os.path.relpath(os.path.dirname(p), R.REPO) for p in glob.glob(os.path.join(R.REPO, 'pkg', 'dialects', '*', 'dialect.go')))


def message_ids_and_aliases():
    ids, aliases = {}, {}
    for path in glob.glob(os.path.join(R.REPO, 'pkg', 'dialects', '*', 'message_*.go')):
        src = open(path).read()
        pk = os.path.basename(os.path.dirname(path))
        m = re.search(r'func \(\*(Message\w+)\) GetID\(\) uint32 \{\s*return (\d+)', src)
        if m:
            ids[(pk, m.group(1))] = int(m.group(2))
        m = re.search(r'^type (Message\w+) = (\w+)\.(Message\w+)$', src, re.M)
        if m:
            aliases[(pk, m.group(1))] = (m.group(2), m.group(3))
    return ids, aliases


def spec_crc_tables(work):
    """per dialect: message id -> spec-derived CRC_EXTRA of the message listed under that id"""
    msgs = gen_msgs.load_message_defs(work)
    crc = {(os.path.basename(m.pkgdir), m.go): m.crc_extra for m in msgs}
    ids, aliases = message_ids_and_aliases()
    out = {}
    for d in dialect_dirs():
        b = os.path.basename(d)
        src = open(os.path.join(R.REPO, d, 'dialect.go')).read()
        t = out.setdefault(b, {})
        for name in re.findall(r'&(Message\w+)\{\}', src):
            pk, nm = b, name
            n = 0
            while (pk, nm) in aliases and n < 10:
                pk, nm = aliases[(pk, nm)]
                n += 1
            if (pk, nm) in ids and (pk, nm) in crc:
                t[ids[(pk, nm)]] = crc[(pk, nm)]
    return out


def prepare(tier, work):
    dirs = dialect_dirs()
    only = os.environ.get('VERIF_ONLY_PKGS')
    if only:
        dirs = [d for d in dirs if os.path.basename(d) in only.split(',')]
    _state['dirs'] = dirs
    extra = {}
    groups = [{'name': None, 'pkgs': ['pkg/dialect'], 'roots': [r'dialect\.verifHarness_C17']}]
    table = spec_crc_tables(work)
    for d in dirs:
        b = os.path.basename(d)
        rows = '\n'.join('\t%d: %d,' % (i, c) for i, c in sorted(table.get(b, {}).items()))
        extra[os.path.join(d, 'zz_verif_c17.go')] = HARNESS.replace('PKGNAME', b).replace('SPECCRC', rows)
        groups.append({'name': d, 'pkgs': [d], 'roots': [b + r'\.verifHarness_C17', b + r'\.verifSetupDialect']})
    return {'extra': extra, 'groups': groups}


def tasks(tier):
    ts = []
    for d in _state['dirs']:
        b = os.path.basename(d)
        ts.append(Task('verifHarness_C17_lookup', [], {'setup_fn': MODPATH + '/' + d + '.verifSetupDialect'}, pkg=d, group=d))
    for k in (2, 3, 4):
        for bad in ((0, 1, 2, 3, 8) if k < 4 else (0, 1, 2, 3, 4, 5, 6, 7, 8, 9, 10, 11, 12)):
            ts.append(Task('verifHarness_C17_duplicates', [k, bad], pkg='pkg/dialect'))
    for dup in (0, 1):
        ts.append(Task('verifHarness_C17_constructors', [dup], pkg='pkg/dialect'))
    return ts


def required_reach(tier):
    return ['C17/D1', 'C17/D2', 'C17/D3']


def bounds(tier):
    return {'lookup': 'each of the %d shipped dialects: the looked-up id symbolic over all 2^32 values, table built by the real Initialize' % len(_state.get('dirs', [])),
            'duplicates': 'user dialects of 2..4 messages whose ids are symbolic (any equalities), optionally with one of 9 malformed structs (unsupported field type, named type without mavenum, enum on an int16 / float / int64 carrier, enum that is not a uint64, arrays of such non-enums, an array of arrays, non-numeric mavlen), or with the very same message value listed twice',
            'constructors': 'dialect.NewReadWriter / message.NewReadWriter (deprecated) on two messages with symbolic ids: same acceptance, same served codecs and CRC_EXTRA as the struct literal plus Initialize',
            'ground': 'no free variable: evaluated on this run from the struct declarations (front end) and the sources: ids pairwise distinct; '
                      'spec-derived extended size <= 255; CRC_EXTRA pins 50/148 and the published TEST_TYPES 103; included messages are '
                      'aliases of one Go type; equally named enum constants have equal values'}


OUTSIDE = ['the full CRC_EXTRA table published with the C library is not available offline: standard messages are compared with the values the '
           'MAVLink rules derive from the definitions (C03) and with the constants the repository pins',
           'malformed user structs beyond the sample (reflection over a symbolic type is out of reach)']
STUBS = ['dialect package initialisers executed concretely', 'message.(*ReadWriter).Initialize from real SSA with reflect intrinsics', 'fmt.Errorf opaque']
ASSUMPTIONS = ['go/ssa faithfully represents the compiled code', 'gosym implements SSA semantics (validated by native replay)', 'z3 is sound']


def ground(tier, work, overlay):
    """closed terms (no free variable), reported separately from solver coverage"""
    fails = []
    count = 0
    msgs = gen_msgs.load_message_defs(work)
    by_tid = {m.tid: m for m in msgs}
    # dialect.go of each dialect: message list (Go identifiers) ; ids from GetID() bodies
    ids = {}
    for path in glob.glob(os.path.join(R.REPO, 'pkg', 'dialects', '*', 'message_*.go')):
        src = open(path).read()
        m = re.search(r'func \(\*(Message\w+)\) GetID\(\) uint32 \{\s*return (\d+)', src)
        if m:
            ids[(os.path.basename(os.path.dirname(path)), m.group(1))] = int(m.group(2))
    aliases = {}
    for path in glob.glob(os.path.join(R.REPO, 'pkg', 'dialects', '*', 'message_*.go')):
        src = open(path).read()
        m = re.search(r'^type (Message\w+) = (\w+)\.(Message\w+)$', src, re.M)
        if m:
            aliases[(os.path.basename(os.path.dirname(path)), m.group(1))] = (m.group(2), m.group(3))

    def resolve(pkg, name, depth=0):
        while (pkg, name) in aliases and depth < 10:
            pkg, name = aliases[(pkg, name)]
            depth += 1
        return pkg, name
    names_to_def = {}
    for d in dialect_dirs():
        b = os.path.basename(d)
        src = open(os.path.join(R.REPO, d, 'dialect.go')).read()
        lst = re.findall(r'&(Message\w+)\{\}', src)
        seen = {}
        for name in lst:
            pk, nm = resolve(b, name)
            count += 1
            if (pk, nm) not in ids:
                fails.append({'tag': 'C17/ground/message-definition-found', 'detail': '%s.%s' % (b, name)})
                continue
            i = ids[(pk, nm)]
            count += 1
            if i in seen:
                fails.append({'tag': 'C17/ground/ids-unique', 'detail': '%s: id %d used by %s and %s' % (b, i, seen[i], name)})
            seen[i] = name
            # included messages: one Go type per message name across dialects
            count += 1
            prev = names_to_def.setdefault(name, (pk, nm))
            if prev != (pk, nm):
                # same message name defined twice: allowed only if the definitions are in unrelated dialects; report
                fails.append({'tag': 'C17/ground/included-message-is-one-go-type', 'detail': '%s defined in %s and %s' % (name, prev[0], pk)})
    for m in msgs:
        count += 1
        if m.size_extended > 255:
            fails.append({'tag': 'C17/ground/fits-255-bytes', 'detail': '%s: %d' % (m.go, m.size_extended)})
    pins = {'MessageHeartbeat': 50, 'MessageRequestDataStream': 148, 'MessageTestTypes': 103, 'MessageSysStatus': 124,
            'MessageAttitude': 39, 'MessageGpsRawInt': 24, 'MessageParamValue': 220, 'MessageCommandLong': 152, 'MessageStatustext': 83}
    for m in msgs:
        if m.go in pins and m.pkgdir.split('/')[-1] in ('minimal', 'common', 'test'):
            count += 1
            if m.crc_extra != pins[m.go]:
                fails.append({'tag': 'C17/ground/spec-crc-extra-equals-published-constant', 'detail': '%s: spec %d, published %d' % (m.go, m.crc_extra, pins[m.go])})
    # enum constants: equal names -> equal values across dialects
    consts = {}
    for path in glob.glob(os.path.join(R.REPO, 'pkg', 'dialects', '*', 'enum_*.go')):
        src = open(path).read()
        tm = re.search(r'^type (\w+) uint64$', src, re.M)
        if not tm:
            continue
        for cm in re.finditer(r'^\t(\w+)\s+%s = (\d+)$' % re.escape(tm.group(1)), src, re.M):
            count += 1
            v = int(cm.group(2))
            prev = consts.setdefault(cm.group(1), (v, path))
            if prev[0] != v:
                fails.append({'tag': 'C17/ground/enum-constant-same-value-everywhere', 'detail': '%s = %d in %s, %d in %s' % (cm.group(1), prev[0], prev[1], v, path)})
    return {'count': count, 'failures': fails, 'note': 'closed terms; CRC_EXTRA of every message vs the spec derivation is checked by C03 on the real Initialize'}
