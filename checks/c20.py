"""C20 — telemetry logs."""
from gosym.check import Task

ID = 'C20'
PKG = 'pkg/tlog'
HARNESS_FILES = ['pkg/frame/zz_verif_common.go', 'pkg/frame/zz_verif_c05.go', 'pkg/frame/zz_verif_export.go', 'pkg/frame/zz_verif_dialect.go', 'pkg/frame/zz_verif_c02.go',
                 'pkg/x25/zz_verif_c02.go', 'pkg/frame/zz_verif_c06.go', 'pkg/frame/zz_verif_msgs.go', 'pkg/tlog/zz_verif_c20.go']
ROOTS = ['tlog.verifHarness_C20']
ALLOW = 'bufio,io,encoding/binary,errors,bytes,time'
INITS = 'io,bufio,errors,time,github.com/bluenviron/gomavlib/v3/pkg/message'
OPTIONS = {'clock_stub': False, 'now_stub': True}
ARITH = {'bv_as_int_fallback': True, 'aided_simplify': True, 'timeout_ms': 2000, 'cvc5_timeout_ms': 30000}
SLICE_S = 5
ANCHOR_FILES = ['/repo/pkg/tlog/reader.go', '/repo/pkg/tlog/writer.go', '/repo/pkg/frame/reader.go', '/repo/pkg/frame/writer.go']


def tasks(tier):
    ts = []
    ts.append(Task('verifHarness_C20_time', [0], ARITH))
    ts.append(Task('verifHarness_C20_time', [1], ARITH))
    for k, n in ([(1, 1), (1, 0), (1, 255)] if tier == "quick" else [(1, 0), (1, 3), (1, 255), (2, 1), (3, 1)]):
        ts.append(Task('verifHarness_C20_write', [k, n, 0], ARITH))
    for k, n in ([(2, 1)] if tier == 'quick' else [(2, 1), (3, 1), (3, 3)]):
        maxlen = k * (8 + 25 + n)
        for cut in range(0, maxlen + 1):
            ts.append(Task('verifHarness_C20_cut', [k, n, cut], {'branch_timeout_ms': 300}))
    for cut in ((-1, 3, 9) if tier == 'quick' else (-1, 1, 3, 7, 8, 9, 12, 20)):
        ts.append(Task('verifHarness_C20_readsplit', [2, 1, cut], {'branch_timeout_ms': 300}))
    for version in (1, 2):
        for shape in range(4):
            ts.append(Task('verifHarness_C20_dialect', [version, shape], {'x25_uf': True}))
    ts.append(Task('verifHarness_C20_own_times', [], ARITH))
    for n in (0, 2):
        ts.append(Task('verifHarness_C20_unencodable', [n]))
        ts.append(Task('verifHarness_C20_fail_then_ok', [n]))
        for f in (1, 2, 3, 11, 12):
            ts.append(Task('verifHarness_C20_writefail', [n, f]))
    return ts


def required_reach(tier):
    return ['C20/W', 'C20/T', 'C20/C', 'C20/E', 'C20/E2', 'C20/F', 'C20/S', 'C20/Wd', 'C20/W2']


def bounds(tier):
    return {'own_times': 'four entries written in a row: a time, an earlier one (half a second back), the zero time.Time, an even earlier one: each 8-byte field is its own entry\'s microsecond count',
            'dialect_entries': 'writer and reader with the harness dialect: one entry whose frame holds a decoded message (4 shapes, arbitrary field values, v1 and v2): file = timestamp + spec frame, read back as the decoded message',
            'entries': '<= 2 (quick) / <= 3 (thorough), each v1 / v2 / signed v2 (forked), raw payload <= 1 (quick) / 3 (thorough) bytes plus one entry with the largest payload (255 bytes), all contents symbolic',
            'times': 'writer: sec in (-2^42, 2^42), nsec in [0, 1e9); reader lemma: every timestamp field value in (-2^62, 2^62)',
            'cuts': 'every byte offset of the log', 'read_segmentation': '2-entry log delivered in 1-byte reads or with a first transport read of 3 / 9 bytes (quick), eight sizes (thorough)',
            'failed_then_valid': 'an unencodable entry followed by a valid one: the file holds only the valid entry', 'write_failures': 'underlying Write failing at call 1, 2 or 3'}


OUTSIDE = ['logs longer than the bound (entries are independent: reader and writer keep no cross-entry state other than the bufio cursor; argued, not mechanised)',
           'dialect messages in entries (raw messages only here; encoding of dialect messages is C03/C04/C09)']
STUBS = ['time.Unix / Time.UnixMicro / UTC / Nanosecond executed from real source', 'bufio / io from real source']
ASSUMPTIONS = ['go/ssa faithfully represents the compiled code', 'gosym implements SSA semantics (validated by native replay)', 'z3 is sound']
