"""C14 — channel lifecycle under faults (clock and fault-sequence kernels)."""
from gosym.check import Task

ID = 'C14'
PKG = '.'
HARNESS_FILES = ['pkg/frame/zz_verif_common.go', 'pkg/frame/zz_verif_dialect.go', 'pkg/frame/zz_verif_c02.go',
                 'pkg/frame/zz_verif_c05.go', 'pkg/frame/zz_verif_c06.go', 'pkg/frame/zz_verif_export.go',
                 'pkg/frame/zz_verif_msgs.go', 'pkg/timednetconn/zz_verif_c14.go', 'zz_verif_node.go', 'zz_verif_c14.go', 'zz_verif_c10.go', 'zz_verif_c11.go', 'zz_verif_life.go']
KERNEL_PKGS = ['.']
CLOCK_PKGS = ['.', 'pkg/timednetconn']
ROOTS = [r'verifHarness_C14', r'v3\.verifHarness_C10_consumer']
ALLOW = 'bufio,io,encoding/binary,errors,bytes,time'
INITS = 'io,bufio,errors,time,github.com/bluenviron/gomavlib/v3/pkg/message,github.com/bluenviron/gomavlib/v3/pkg/frame'
OPTIONS = {'now_stub': True}
NATIVE = False
ANCHOR_FILES = ['/repo/channel_provider.go', '/repo/endpoint_client.go', '/repo/endpoint_serial.go', '/repo/endpoint_server.go', '/repo/endpoint_broadcast.go',
                '/repo/pkg/timednetconn/conn.go', '/repo/channel.go']


def tasks(tier):
    ts = []
    for k1 in (0, 1):
        for k2 in (0, 1):
            for k3 in (0, 1):
                ts.append(Task('verifHarness_C14_deadlines', [k1, k2, k3, 0], pkg='pkg/timednetconn'))
    ts.append(Task('verifHarness_C14_deadlines', [0, 1, 0, 1], pkg='pkg/timednetconn'))
    for kind in (0, 1):
        for ek in (0, 1, 2, 3):
            ts.append(Task('verifHarness_C14_outcome', [kind, ek], pkg='pkg/timednetconn'))
    for fails in range(4):
        for second in (0, 1):
            ts.append(Task('verifHarness_C14_serial', [fails, second]))
            for udp in (0, 1):
                ts.append(Task('verifHarness_C14_client', [udp, fails, second]))
    for fails in (5, 6, 8):
        ts.append(Task('verifHarness_C14_client', [0, fails, 0]))
    for udp in (0, 1):
        ts.append(Task('verifHarness_C14_server', [udp]))
    ts.append(Task('verifHarness_C14_terminated', []))
    for kind, ek in ((0, 0), (0, 1), (1, 0), (1, 1), (2, 0), (3, 0)):
        ts.append(Task('verifHarness_C14_broadcast', [kind, ek]))
    for kind in (0, 1, 2):
        for second in (0, 1):
            ts.append(Task('verifHarness_C14_backoff_terminated', [kind, second]))
    for udp in (0, 1):
        ts.append(Task('verifHarness_C14_connect_terminated', [udp, 0]))
    for busy in (0, 1, 2, 3):
        ts.append(Task('verifHarness_C14_read_failure', [busy], {'x25_uf': True}))
    for one in (0, 1):
        for cd in (0, 1):
            ts.append(Task('verifHarness_C14_provider', [one, cd]))
    # the channel is not declared done (what a one-channel-at-a-time provider waits for) before its close event is delivered
    ts.append(Task('verifHarness_C10_consumer', [0, 0], {'x25_uf': True}))
    return ts


def required_reach(tier):
    return ['C14/T1', 'C14/T2s', 'C14/T2c', 'C14/T3', 'C14/T4', 'C14/L2', 'C14/T2t', 'C14/T2b', 'C14/T1p', 'C14/T5', 'C10/C', 'C14/T2c']


def bounds(tier):
    return {'T1_deadlines': 'every sequence of 3 Read/Write calls; idle and write timeouts arbitrary in [0, 2^50) ns; clock readings arbitrary '
                            'non-decreasing; a failing Set*Deadline',
            'T1_outcome': 'Read and Write of the wrapper return the wrapped call\'s byte count (0..8, symbolic) and error unchanged: nil, a generic error, os.ErrDeadlineExceeded, a wrapped os.ErrDeadlineExceeded',
            'T2_reconnect': 'serial, TCP client and UDP client provide(): 0..3 consecutive failed attempts then a success, first and later '
                            'provide() calls; timers are treated as fired and their durations logged; closed endpoint',
            'T2_connect_close': 'TCP / UDP client whose connection attempt gets no answer: closing the endpoint ends provide() with errTerminated (one schedule)',
            'T2_backoff_close': 'serial / TCP client / UDP client provide() with every attempt failing and reconnect timers that have not elapsed: closing the endpoint ends provide() with errTerminated (one schedule)',
            'T5_broadcast': 'UDP broadcast connection wrapper: one Read / Write, write timeout and clock symbolic, byte count 0..8, error or not, failing SetWriteDeadline; a channel ends (connection closed), the next connection provided still reads from a working socket, closing the endpoint releases it',
            'T4_server': 'TCP and UDP server provide(): two accepted peers then an accept error; idle, write and read timeouts symbolic', 'T2_long_outage': 'TCP client with 5, 6 and 8 failed attempts (virtual time: the reconnect waits add up past the 10 s connect timeout)',
            'T3_provider': 'scripted endpoint handing out 3 connections then terminating; one-at-a-time or not; channels reported done or not',
            'NOT DECIDED': 'that the close event carries the reader error and that an expired deadline ends the channel (both through '
                           'Channel.run, three goroutines); server endpoint Accept loop with real listeners; behaviour of real sockets'}


OUTSIDE = ['EventChannelClose.Error (Channel.run)', 'endpointServer / endpointBroadcast against real listeners', 'more than 3 consecutive failures']
STUBS = ['time.Now: verifClockAt(d), arbitrary non-decreasing d; Time.Add/Equal real source (Sub/Equal on two clock instants by contract)',
         'time.After: fired at once, duration logged', 'context.WithCancel: Done channel + cancel; WithTimeout: additionally done once the logged timer waits (virtual time) add up to the timeout',
         '(*net.Dialer).DialContext: outcome scripted by the harness', 'net.SplitHostPort on concrete text', 'serialOpenFunc replaced by the harness (package seam)']
ASSUMPTIONS = ['go/ssa faithfully represents the compiled code', 'the gosym channel/select model is faithful for a single goroutine',
               'counterexamples of kernel harnesses are confirmed by concrete re-execution in the interpreter, not natively', 'z3 is sound']
