"""C11 — write fan-out (sequential kernels)."""
from gosym.check import Task

ID = 'C11'
PKG = '.'
HARNESS_FILES = ['pkg/frame/zz_verif_common.go', 'pkg/frame/zz_verif_dialect.go', 'pkg/frame/zz_verif_c02.go',
                 'pkg/frame/zz_verif_c05.go', 'pkg/frame/zz_verif_c06.go', 'pkg/frame/zz_verif_export.go',
                 'pkg/frame/zz_verif_msgs.go', 'zz_verif_node.go', 'zz_verif_c11.go', 'zz_verif_c10.go', 'zz_verif_life.go']
KERNEL_PKGS = ['.']
ROOTS = [r'v3\.verifHarness_C11', r'v3\.verifHarness_C13']
ALLOW = 'bufio,io,encoding/binary,errors,bytes'
INITS = 'io,bufio,errors,github.com/bluenviron/gomavlib/v3/pkg/message,github.com/bluenviron/gomavlib/v3/pkg/frame'
OPTIONS = {'x25_uf': True, 'fork_map_order': True}
NATIVE = False
TAG_FILTER = ('C11/',)
ANCHOR_FILES = ['/repo/node.go', '/repo/channel.go']


def tasks(tier):
    ts = []
    for kind in (0, 1, 2):
        for member in range(8):
            for target in ((0,) if kind == 0 else (0, 1, 2, 3, 4)):
                if tier == 'quick' and kind != 0 and target in (1, 2) and member not in (7, 5):
                    continue
                ts.append(Task('verifHarness_C11_dispatch', [kind, member, target]))
    for kind in (0, 1):
        for closing in (0, 1, 2):
            ts.append(Task('verifHarness_C11_dispatch_closing', [kind, closing]))
    for version in (1, 2):
        for a in range(3):
            ts.append(Task('verifHarness_C11_drain', [version, a]))
    for api in range(9):
        ts.append(Task('verifHarness_C11_caller', [api]))
    for api in range(7):
        ts.append(Task('verifHarness_C11_router_nodialect', [api]))
    ts.append(Task('verifHarness_C11_node_forward_frames', []))
    return ts


def required_reach(tier):
    return ['C11/K1', 'C11/K3', 'C11/K4', 'C11/K4r', 'C11/K1c', 'C11/NF']


def bounds(tier):
    return {'K4_router_without_dialect': 'node with Dialect = nil: raw v1 / v2 frames (id, payload, checksum symbolic) through WriteFrameAll/To/Except are accepted and handed over once, unchanged; a decoded message is refused',
            'node_level_forwarding': 'ONE SCHEDULE: a real node over two links, one of them momentarily slow: three different frames forwarded to all links arrive on each link whole, in order, once',
            'K1c_closing_member': 'three member channels, one of them cancelled: All / Except(nil) still serve the other two exactly once, under every rotation of the map order',
            'K1_dispatch': '3 channels with every membership subset + one foreign channel, every target incl. the foreign one and nil; each queue with an arbitrary '
                           'fill level 0..64 (symbolic); map iteration order: every rotation',
            'K3_drain': 'queue of 3 items (message / frame mixes), v1 and v2 link',
            'K4_caller': 'the six Write* entry points, one call each (v2 frames), plus the three WriteFrame* with a v1 frame through the v2 node',
            'composition': 'ASSUMED, not checked: Go channels are FIFO and atomic; Node.channels is touched only by Node.run; one writer '
                           'goroutine per channel. Given those, K1-K4 yield exactly-once, isolation and per-submitter FIFO.'}


OUTSIDE = ['behaviour under concurrent callers as such (no scheduler in the engine)', 'races with channel close',
           'more than 3 channels / 3 queued items']
STUBS = ['channels: single-goroutine model (capacity, symbolic fill, appended items, closed flag, sinks); select forks over ready cases',
         'context.WithCancel: Done channel + idempotent cancel', 'crypto/rand: arbitrary byte', 'x25 summarised, sha256 uninterpreted',
         'go statements only recorded']
ASSUMPTIONS = ['go/ssa faithfully represents the compiled code', 'the gosym channel/select model is faithful for a single goroutine',
               'counterexamples of kernel harnesses are confirmed by concrete re-execution in the interpreter, not natively (blocking code)',
               'z3 is sound']
