"""C13 — a stalled channel does not stall the node (first sentence; sequential kernels)."""
from gosym.check import Task
from . import c11 as C11

ID = 'C13'
PKG = '.'
HARNESS_FILES = C11.HARNESS_FILES + ['zz_verif_c10.go', 'zz_verif_life.go']
KERNEL_PKGS = ['.']
ROOTS = [r'v3\.verifHarness_C11_dispatch', r'v3\.verifHarness_C13', r'v3\.verifHarness_C14_read_failure']
ALLOW = C11.ALLOW
INITS = C11.INITS
OPTIONS = C11.OPTIONS
NATIVE = False
TAG_FILTER = ('C13/', 'C11/K1/', 'C11/K1c/', 'C14/L2/')
ANCHOR_FILES = ['/repo/channel.go', '/repo/node.go']


def tasks(tier):
    ts = [Task('verifHarness_C13_enqueue', [0]), Task('verifHarness_C13_enqueue', [1]), Task('verifHarness_C13_full_queue_keeps_backlog', [])]
    ts += [Task('verifHarness_C13_overflow_then_room', [d]) for d in ((1, 20, 40, 64) if tier == 'quick' else range(1, 65))]
    ts += [Task('verifHarness_C13_stall', [k]) for k in (0, 1, 2)]
    ts += [Task('verifHarness_C14_read_failure', [busy]) for busy in (0, 1, 2, 3)]
    ts += [Task('verifHarness_C13_failed_write', [cause, k, 0]) for cause in (0, 1, 2, 3, 4, 5, 6, 7, 8) for k in (1, 2, 3)]
    ts += [Task('verifHarness_C13_failed_write', [cause, 1, 1]) for cause in (0, 1)]
    ts += [Task('verifHarness_C13_failed_write_full_backlog', [k]) for k in (0, 1)]
    ts += [Task('verifHarness_C13_node_keeps_serving', [p]) for p in (0, 1)]
    ts += [Task('verifHarness_C11_dispatch_closing', [kind, c]) for kind in (0, 1) for c in (0, 1, 2)]
    for kind in (0, 1, 2):
        for member in ((7, 5, 3) if tier == 'quick' else range(8)):
            for target in ((0,) if kind == 0 else (0, 3)):
                ts.append(Task('verifHarness_C11_dispatch', [kind, member, target]))
    return ts


def required_reach(tier):
    return ['C13/K2', 'C11/K1', 'C13/S', 'C13/L1', 'C14/L2', 'C13/N', 'C13/K2b', 'C13/K2c', 'C13/L1b', 'C11/K1c']


def bounds(tier):
    return {'full_backlog': '64 distinct items queued on a channel set up by the real Channel.initialize, a 65th written: the 64 are kept in order, the newcomer is discarded, no blocking',
            'overflow_then_room': '67 items written (3 discarded), d items taken off by the writer (d = 1, 20, 40, 64 quick; every d in 1..64 thorough), d+1 further items written: d are queued at the tail in order, the backlog is 64 again',
            'enqueue': 'one Channel.write with an arbitrary backlog 0..64 (symbolic), channel live or cancelled',
            'dispatch': 'one request through the node loop with 3 member channels + 1 foreign, every queue at an arbitrary fill level '
                        '(so any subset of channels is full): the loop consumes the request and returns to waiting; every non-full '
                        'addressed channel still receives the item',
            'stall': 'channel A full, channel B at an arbitrary non-full level; two requests (to A then to B; except-B then except-A; two write-all): both consumed, A discards, B served',
            'node_level': 'ONE SCHEDULE: a real node over two custom links, the application not receiving events; a write to all links fails on link A (once / for good): two further writes to all links return and reach link B in order',
            'second_sentence': 'ONE SCHEDULE (goroutines run round-robin until each blocks, to quiescence): Channel.run with its reader blocked in the '
                               'transport; the k-th write (k = 1..3) of a message or of a forwarded frame fails with a transport error (once, or for good from then on; reported with a zero or with the full byte count; also forwarded frames whose message id the dialect does not know), or an item with an id outside the dialect '
                               'cannot be encoded; also with the transport behind a no-op-Close wrapper (custom / UDP broadcast endpoints: KNOWN FINDING); then a further valid write: the channel was closed and reported once, or still delivers; L1b: the transport stalls inside a Write, 66 more items are written (backlog full), the stalled Write then fails with a generic or a timeout-type (net.Error) error, three further writes: closed and reported once, or delivering'}


OUTSIDE = ['other interleavings of the three goroutines of a channel than the run-until-blocked round-robin one', 'transport Write blocking inside runWriter (a blocked goroutine is invisible to other '
           'goroutines only through the bounded queue, which is what K2 establishes)']
STUBS = C11.STUBS
ASSUMPTIONS = C11.ASSUMPTIONS
