"""C13 — a stalled channel does not stall the node (first sentence; sequential kernels)."""
from gosym.check import Task
from . import c11 as C11

ID = 'C13'
PKG = '.'
HARNESS_FILES = C11.HARNESS_FILES
KERNEL_PKGS = ['.']
ROOTS = [r'v3\.verifHarness_C11_dispatch', r'v3\.verifHarness_C13']
ALLOW = C11.ALLOW
INITS = C11.INITS
OPTIONS = C11.OPTIONS
NATIVE = False
TAG_FILTER = ('C13/', 'C11/K1/')
ANCHOR_FILES = ['/repo/channel.go', '/repo/node.go']


def tasks(tier):
    ts = [Task('verifHarness_C13_enqueue', [0]), Task('verifHarness_C13_enqueue', [1])]
    ts += [Task('verifHarness_C13_stall', [k]) for k in (0, 1, 2)]
    for kind in (0, 1, 2):
        for member in ((7, 5, 3) if tier == 'quick' else range(8)):
            for target in ((0,) if kind == 0 else (0, 3)):
                ts.append(Task('verifHarness_C11_dispatch', [kind, member, target]))
    return ts


def required_reach(tier):
    return ['C13/K2', 'C11/K1', 'C13/S']


def bounds(tier):
    return {'enqueue': 'one Channel.write with an arbitrary backlog 0..64 (symbolic), channel live or cancelled',
            'dispatch': 'one request through the node loop with 3 member channels + 1 foreign, every queue at an arbitrary fill level '
                        '(so any subset of channels is full): the loop consumes the request and returns to waiting; every non-full '
                        'addressed channel still receives the item',
            'stall': 'channel A full, channel B at an arbitrary non-full level; two requests (to A then to B; except-B then except-A; two write-all): both consumed, A discards, B served',
            'second_sentence': 'NOT DECIDED: what Channel.run does after runWriter returns with an error involves three goroutines '
                               '(reader blocked in the transport, writer gone, run selecting on readerDone/ctx) and a quiescence argument'}


OUTSIDE = ['the failing-write sentence of the property (needs a scheduler; reading the code suggests the channel stays open and mute, '
           'which this technique cannot demonstrate)', 'transport Write blocking inside runWriter (a blocked goroutine is invisible to other '
           'goroutines only through the bounded queue, which is what K2 establishes)']
STUBS = C11.STUBS
ASSUMPTIONS = C11.ASSUMPTIONS
