"""Generator of per-message-type harnesses (C03/C04) and an independent implementation of the MAVLink
serialization rules (field reordering, sizes, CRC_EXTRA) computed from the Go struct declarations.
It never reads the ReadWriter's field table."""
import json
import os
import re
import subprocess

from gosym import run as R

MOD = 'github.com/bluenviron/gomavlib/v3'

MAVTYPE = {'float64': ('double', 8), 'uint64': ('uint64_t', 8), 'int64': ('int64_t', 8), 'float32': ('float', 4),
           'uint32': ('uint32_t', 4), 'int32': ('int32_t', 4), 'uint16': ('uint16_t', 2), 'int16': ('int16_t', 2),
           'uint8': ('uint8_t', 1), 'int8': ('int8_t', 1), 'string': ('char', 1)}
ENUM_OK = ('uint8', 'int8', 'uint16', 'uint32', 'int32', 'uint64')


def crc_x25(data, crc=0xFFFF):
    for b in data:
        crc ^= b
        for _ in range(8):
            crc = (crc >> 1) ^ 0x8408 if crc & 1 else crc >> 1
    return crc


def go_to_def(name):
    s = re.sub(r'([A-Z])', r'_\1', name)
    return s[1:]


class Field:
    pass


class Msg:
    pass


def parse_tag(tag):
    return dict(re.findall(r'(\w+):"([^"]*)"', tag or ''))


def load_message_defs(workdir):
    """phase 1: struct declarations of every Message* type defined in the dialect packages"""
    out = os.path.join(workdir, 'dialect_types.json')
    cmd = [os.path.join(R.VERIF, 'bin', 'gossa'), '-dir', R.REPO, '-pkgs', './pkg/dialects/...', '-roots', 'NONE^',
           '-mtypes', r'/pkg/dialects/[a-z0-9]+\.Message', '-out', out]
    r = subprocess.run(cmd, env=R.GOENV, capture_output=True, text=True)
    if r.returncode != 0:
        raise RuntimeError('gossa (types) failed: ' + r.stderr[-2000:])
    j = json.load(open(out))
    ts = j['types']
    msgs = []
    for tid, d in sorted(ts.items()):
        if d['k'] != 'named' or not d['name'].startswith('Message') or '/pkg/dialects/' not in d.get('pkg', ''):
            continue
        st = ts[d['under']]
        if st['k'] != 'struct':
            continue
        m = Msg()
        m.tid = tid
        m.go = d['name']
        m.pkgpath = d['pkg']
        m.pkgdir = d['pkg'][len(MOD) + 1:]
        m.fields = []
        for i, f in enumerate(st.get('fields') or []):
            fd = Field()
            fd.index = i
            fd.go = f['name']
            tags = parse_tag(f.get('tag'))
            ft = ts[f['type']]
            fd.arr = 0
            if ft['k'] == 'array':
                fd.arr = ft['len']
                ft = ts[ft['elem']]
            fd.enum_type = None
            if ft['k'] == 'named':
                fd.enum_type = ft['name']
                fd.enum_pkg = ft['pkg']
                base = ts[ft['under']]
                fd.gobasic = base['name']
            else:
                fd.gobasic = ft['name']
            fd.tags = tags
            fd.is_enum = 'mavenum' in tags
            fd.ext = tags.get('mavext') == 'true'
            fd.name = tags.get('mavname') or go_to_def(fd.go).lower()
            if fd.is_enum:
                wt = tags['mavenum']
                if fd.gobasic != 'uint64' or wt not in ENUM_OK:
                    raise RuntimeError('unexpected enum field %s.%s' % (m.go, fd.go))
                fd.wire = wt
            else:
                fd.wire = fd.gobasic
            fd.mav, fd.size = MAVTYPE[fd.wire]
            fd.strlen = 0
            fd.crc_len = fd.arr
            if fd.gobasic == 'string' and not fd.is_enum:
                if 'mavlen' in tags:
                    fd.strlen = int(tags['mavlen'])
                    fd.crc_len = fd.strlen
                else:
                    fd.strlen = 1
                    fd.crc_len = 0  # plain char: no array length in the CRC seed (mavgen)
                fd.total = fd.strlen
            else:
                fd.total = fd.size * (fd.arr or 1)
            m.fields.append(fd)
        base = [f for f in m.fields if not f.ext]
        ext = [f for f in m.fields if f.ext]
        m.ext_after_base = all(e.index > b.index for e in ext for b in base) if ext and base else True
        base_sorted = sorted(base, key=lambda f: -f.size)  # python sort is stable
        m.wire = base_sorted + ext
        m.size_normal = sum(f.total for f in base)
        m.size_extended = sum(f.total for f in m.fields)
        m.mavname = go_to_def(m.go[len('Message'):]).upper()
        seed = (m.mavname + ' ').encode()
        for f in base_sorted:
            seed += (f.mav + ' ').encode() + (f.name + ' ').encode()
            if f.crc_len:
                seed += bytes([f.crc_len & 0xFF])
        c = crc_x25(seed)
        m.crc_extra = (c & 0xFF) ^ (c >> 8)
        off = 0
        for f in m.wire:
            f.off = off
            off += f.total
        msgs.append(m)
    return msgs


HELPERS = '''package PKGNAME

// helpers of the generated per-message harnesses (spec side)

func verifLE(v uint64, n int) []byte {
	out := make([]byte, n)
	for i := 0; i < n; i++ {
		out[i] = byte((v >> (8 * uint(i))) & 0xFF)
	}
	return out
}

func verifLEdec(b []byte, n int) uint64 {
	var v uint64
	for i := 0; i < n; i++ {
		v |= uint64(b[i]) << (8 * uint(i))
	}
	return v
}

func verifNondetString(n int) string { return string(verifNondetBytes(n)) }

// char[size] field: the string's bytes up to size, NUL padded
func verifChars(s string, size int) []byte {
	out := make([]byte, size)
	for i := 0; i < size && i < len(s); i++ {
		out[i] = s[i]
	}
	return out
}

// canonical form the wire imposes on a string: cut at the declared size or the first NUL
func verifCanonStr(s string, size int) string {
	end := 0
	for end < size && end < len(s) && s[end] != 0 {
		end++
	}
	return s[:end]
}

// string carried by a char[size] wire field
func verifWireStr(b []byte, size int) string {
	end := 0
	for end < size && b[end] != 0 {
		end++
	}
	return string(b[:end])
}

// spec truncation for v2: strip trailing zero bytes, keep at least one byte
func verifTruncate(p []byte) []byte {
	end := len(p)
	for end > 1 && p[end-1] == 0 {
		end--
	}
	return p[:end]
}

func verifCopy(p []byte) []byte {
	out := make([]byte, len(p))
	copy(out, p)
	return out
}

func verifZeroExtend(p []byte, n int) []byte {
	out := make([]byte, 0, n)
	out = append(out, p...)
	for len(out) < n {
		out = append(out, 0)
	}
	return out
}

func verifAllZero(p []byte) bool {
	r := true
	for i := range p {
		r = verifAnd(r, p[i] == 0)
	}
	return r
}
'''

NONDET = {8: 'verifNondetU8()', 16: 'verifNondetU16()', 32: 'verifNondetU32()', 64: 'verifNondetU64()'}


def go_elem_from_raw(f, raw):
    """Go expression converting the raw uint64 value into the field's element type"""
    if f.is_enum:
        return '%s(%s)' % (f.enum_type, raw)
    b = f.gobasic
    if b == 'float32':
        return 'verifF32frombits(uint32(%s))' % raw
    if b == 'float64':
        return 'verifF64frombits(%s)' % raw
    return '%s(%s)' % (b, raw)


def go_raw_from_elem(f, e):
    """Go expression: bit pattern (uint64, masked to the wire width) of a decoded element"""
    if f.is_enum:
        return 'uint64(%s)' % e
    b = f.gobasic
    if b == 'float32':
        return 'uint64(verifF32bits(%s))' % e
    if b == 'float64':
        return 'verifF64bits(%s)' % e
    bits = f.size * 8
    if b.startswith('int'):
        return 'uint64(uint%d(%s))' % (bits, e)
    return 'uint64(%s)' % e


def gen_message(m):
    T = m.go
    L = []
    w = L.append
    # ---- equality of two decoded values
    w('func verifEq_%s(a, b *%s) bool {' % (T, T))
    w('\tr := true')
    for f in m.fields:
        if f.gobasic == 'string' and not f.is_enum:
            w('\tr = verifAnd(r, verifEqStr(a.%s, b.%s))' % (f.go, f.go))
        elif f.arr:
            w('\tfor i := 0; i < %d; i++ {' % f.arr)
            w('\t\tr = verifAnd(r, %s == %s)' % (go_raw_from_elem(f, 'a.%s[i]' % f.go), go_raw_from_elem(f, 'b.%s[i]' % f.go)))
            w('\t}')
        else:
            w('\tr = verifAnd(r, %s == %s)' % (go_raw_from_elem(f, 'a.' + f.go), go_raw_from_elem(f, 'b.' + f.go)))
    w('\treturn r')
    w('}')
    w('')
    # ---- M: layout + round trip from an arbitrary value
    w('// M: arbitrary value -> Write: spec layout; Read(Write(v)) is the canonical form of v.')
    w('// tz: assumption on trailing zeros of the full v2 layout (0: last byte non-zero, 1: all zero, 2: exactly one, 3: exactly two, 9: none).')
    w('// strk: length of each string value.')
    w('func verifHarness_M_%s(v2 int, tz int, strk int) {' % T)
    w('\tm := &%s{}' % T)
    for f in m.fields:
        v = 'r%d' % f.index
        if f.gobasic == 'string' and not f.is_enum:
            sidx = [x.index for x in m.fields if x.gobasic == 'string' and not x.is_enum].index(f.index)
            w('\tk%d := strk' % f.index)
            w('\tif strk >= 1000 {')
            w('\t\t// string number strk-1000 is longer than its field by 3, every other string has one byte')
            w('\t\tk%d = 1' % f.index)
            w('\t\tif strk-1000 == %d {' % sidx)
            w('\t\t\tk%d = %d' % (f.index, f.strlen + 3))
            w('\t\t}')
            w('\t}')
            w('\t%s := verifNondetString(k%d)' % (v, f.index))
            w('\tm.%s = %s' % (f.go, v))
        elif f.arr:
            bits = 64 if f.is_enum else f.size * 8
            w('\t%s := make([]uint64, %d)' % (v, f.arr))
            w('\tfor i := range %s {' % v)
            w('\t\t%s[i] = uint64(%s)' % (v, NONDET[bits]))
            w('\t\tm.%s[i] = %s' % (f.go, go_elem_from_raw(f, v + '[i]')))
            w('\t}')
        else:
            bits = 64 if f.is_enum else f.size * 8
            w('\t%s := uint64(%s)' % (v, NONDET[bits]))
            w('\tm.%s = %s' % (f.go, go_elem_from_raw(f, v)))
    w('\trw := &message.ReadWriter{Message: &%s{}}' % T)
    w('\tverifAssert(rw.Initialize() == nil, "C03/initializes")')
    w('\tverifAssert(rw.CRCExtra() == %d, "C03/crc-extra-is-spec-value")' % m.crc_extra)
    w('\tfull := make([]byte, 0, %d)' % m.size_extended)
    for f in m.wire:
        v = 'r%d' % f.index
        if f.gobasic == 'string' and not f.is_enum:
            w('\tfull = append(full, verifChars(%s, %d)...)' % (v, f.strlen))
        elif f.arr:
            w('\tfor i := 0; i < %d; i++ {' % f.arr)
            w('\t\tfull = append(full, verifLE(%s[i], %d)...)' % (v, f.size))
            w('\t}')
        else:
            w('\tfull = append(full, verifLE(%s, %d)...)' % (v, f.size))
    w('\tvar exp []byte')
    w('\tif v2 == 1 {')
    w('\t\tn := len(full)')
    w('\t\tswitch tz {')
    w('\t\tcase 0:')
    w('\t\t\tverifAssume(full[n-1] != 0)')
    w('\t\tcase 1:')
    w('\t\t\tverifAssume(verifAllZero(full))')
    w('\t\tcase 2:')
    w('\t\t\tif n >= 2 {')
    w('\t\t\t\tverifAssume(verifAnd(full[n-1] == 0, full[n-2] != 0))')
    w('\t\t\t}')
    w('\t\tcase 3:')
    w('\t\t\tif n >= 3 {')
    w('\t\t\t\tverifAssume(verifAnd(verifAnd(full[n-1] == 0, full[n-2] == 0), full[n-3] != 0))')
    w('\t\t\t}')
    w('\t\t}')
    w('\t\texp = verifTruncate(full)')
    w('\t} else {')
    w('\t\texp = full[:%d]' % m.size_normal)
    w('\t}')
    w('\traw := rw.Write(m, v2 == 1)')
    w('\tverifAssert(raw != nil && raw.ID == m.GetID(), "C03/raw-id")')
    w('\tverifObserveBytes("M/payload", raw.Payload)')
    w('\tverifAssert(verifEqBytes(raw.Payload, exp), "C03/payload-is-spec-layout")')
    w('\tif v2 == 1 {')
    w('\t\tverifAssert(len(raw.Payload) >= 1, "C04/v2-at-least-one-byte")')
    w('\t\tverifAssert(verifOr(len(raw.Payload) == 1, raw.Payload[len(raw.Payload)-1] != 0), "C04/v2-trailing-zeros-stripped")')
    w('\t}')
    w('\tgotm, err := rw.Read(&message.MessageRaw{ID: raw.ID, Payload: raw.Payload}, v2 == 1)')
    w('\tverifAssert(err == nil, "C04/rt/decodes")')
    w('\tg, ok := gotm.(*%s)' % T)
    w('\tverifAssert(ok, "C04/rt/type")')
    for f in m.fields:
        v = 'r%d' % f.index
        tag = '"C04/rt/field-canonical"'
        mask = (1 << (8 * f.size)) - 1
        if f.ext:
            # v1: extension fields come back as zero
            if f.gobasic == 'string' and not f.is_enum:
                w('\tif v2 == 1 {')
                w('\t\tverifAssert(verifEqStr(g.%s, verifCanonStr(%s, %d)), %s)' % (f.go, v, f.strlen, tag))
                w('\t} else {')
                w('\t\tverifAssert(len(g.%s) == 0, "C04/rt/v1-extension-zero")' % f.go)
                w('\t}')
            elif f.arr:
                w('\tfor i := 0; i < %d; i++ {' % f.arr)
                w('\t\tif v2 == 1 {')
                w('\t\t\tverifAssert(%s == %s[i]&0x%x, %s)' % (go_raw_from_elem(f, 'g.%s[i]' % f.go), v, mask, tag))
                w('\t\t} else {')
                w('\t\t\tverifAssert(%s == 0, "C04/rt/v1-extension-zero")' % go_raw_from_elem(f, 'g.%s[i]' % f.go))
                w('\t\t}')
                w('\t}')
            else:
                w('\tif v2 == 1 {')
                w('\t\tverifAssert(%s == %s&0x%x, %s)' % (go_raw_from_elem(f, 'g.' + f.go), v, mask, tag))
                w('\t} else {')
                w('\t\tverifAssert(%s == 0, "C04/rt/v1-extension-zero")' % go_raw_from_elem(f, 'g.' + f.go))
                w('\t}')
        else:
            if f.gobasic == 'string' and not f.is_enum:
                w('\tverifAssert(verifEqStr(g.%s, verifCanonStr(%s, %d)), %s)' % (f.go, v, f.strlen, tag))
            elif f.arr:
                w('\tfor i := 0; i < %d; i++ {' % f.arr)
                w('\t\tverifAssert(%s == %s[i]&0x%x, %s)' % (go_raw_from_elem(f, 'g.%s[i]' % f.go), v, mask, tag))
                w('\t}')
            else:
                w('\tverifAssert(%s == %s&0x%x, %s)' % (go_raw_from_elem(f, 'g.' + f.go), v, mask, tag))
    w('\tverifReach("M")')
    w('}')
    w('')
    # ---- D: decoding an arbitrary payload
    w('// D: arbitrary payload of length n in a caller buffer with spare capacity; k zero bytes appended / z trailing zero bytes removed.')
    w('func verifHarness_D_%s(v2 int, n int, k int, z int) {' % T)
    w('\trw := &message.ReadWriter{Message: &%s{}}' % T)
    w('\tverifAssert(rw.Initialize() == nil, "C03/initializes")')
    w('\tconst SN, SE = %d, %d' % (m.size_normal, m.size_extended))
    w('\tc := n')
    w('\tif c < SE {')
    w('\t\tc = SE')
    w('\t}')
    w('\tc += 2')
    w('\tback := verifNondetBytesCap(n, c)')
    w('\tif z > 0 {')
    w('\t\tverifAssume(verifAllZero(back[n-z : n]))')
    w('\t}')
    w('\tkeep := verifCopy(back[:c])')
    w('\traw := &message.MessageRaw{ID: (&%s{}).GetID(), Payload: back}' % T)
    w('\tgotm, err := rw.Read(raw, v2 == 1)')
    w('\tverifObserveBytes("D/backing-after", back[:c])')
    w('\tverifAssert(verifEqBytes(back[:c], keep), "C04/caller-buffer-not-written")')
    w('\tverifAssert(len(raw.Payload) == n && cap(raw.Payload) == c, "C04/caller-message-not-modified")')
    w('\tif v2 == 0 {')
    w('\t\tverifAssert((err != nil) == (n != SN), "C04/v1-exact-base-length")')
    w('\t} else {')
    w('\t\tverifAssert(err == nil, "C04/v2-decodes-any-length")')
    w('\t}')
    w('\tif err != nil {')
    w('\t\tverifAssert(gotm == nil, "C04/error-no-message")')
    w('\t\tverifReach("D")')
    w('\t\treturn')
    w('\t}')
    w('\tg, ok := gotm.(*%s)' % T)
    w('\tverifAssert(ok, "C04/decode-type")')
    # spec decode
    w('\tsz := SN')
    w('\tif v2 == 1 {')
    w('\t\tsz = SE')
    w('\t}')
    w('\tpz := verifZeroExtend(keep[:n], sz)')
    for f in m.wire:
        tag = '"C04/decode-fields-at-spec-offsets"'
        guard_open = ''
        ind = '\t'
        if f.ext:
            w('\tif v2 == 1 {')
            ind = '\t\t'
        if f.gobasic == 'string' and not f.is_enum:
            w('%sverifAssert(verifEqStr(g.%s, verifWireStr(pz[%d:], %d)), %s)' % (ind, f.go, f.off, f.strlen, tag))
        elif f.arr:
            w('%sfor i := 0; i < %d; i++ {' % (ind, f.arr))
            w('%s\tverifAssert(%s == verifLEdec(pz[%d+i*%d:], %d), %s)' % (ind, go_raw_from_elem(f, 'g.%s[i]' % f.go), f.off, f.size, f.size, tag))
            w('%s}' % ind)
        else:
            w('%sverifAssert(%s == verifLEdec(pz[%d:], %d), %s)' % (ind, go_raw_from_elem(f, 'g.' + f.go), f.off, f.size, tag))
        if f.ext:
            w('\t}')
    w('\tif v2 == 1 {')
    w('\t\t// any number of zero bytes appended to or removed from the end: same result; unknown trailing bytes ignored')
    w('\t\tp2 := verifZeroExtend(keep[:n], n+k)')
    w('\t\tg2, err2 := rw.Read(&message.MessageRaw{ID: raw.ID, Payload: p2}, true)')
    w('\t\tverifAssert(err2 == nil, "C04/append-zeros-decodes")')
    w('\t\tverifAssert(verifEq_%s(g, g2.(*%s)), "C04/append-zeros-same-result")' % (T, T))
    w('\t\tif z > 0 {')
    w('\t\t\tp3 := verifCopy(keep[:n-z])')
    w('\t\t\tg3, err3 := rw.Read(&message.MessageRaw{ID: raw.ID, Payload: p3}, true)')
    w('\t\t\tverifAssert(err3 == nil, "C04/strip-zeros-decodes")')
    w('\t\t\tverifAssert(verifEq_%s(g, g3.(*%s)), "C04/strip-zeros-same-result")' % (T, T))
    w('\t\t}')
    w('\t\tif n > SE {')
    w('\t\t\tg4, err4 := rw.Read(&message.MessageRaw{ID: raw.ID, Payload: verifCopy(keep[:SE])}, true)')
    w('\t\t\tverifAssert(err4 == nil, "C04/known-part-decodes")')
    w('\t\t\tverifAssert(verifEq_%s(g, g4.(*%s)), "C04/unknown-trailing-bytes-ignored")' % (T, T))
    w('\t\t}')
    w('\t}')
    w('\tverifReach("D")')
    w('}')
    w('')
    return '\n'.join(L)


def generate(msgs, only_pkgs=None):
    """returns dict relpath -> content (one generated file + helpers per dialect package)"""
    out = {}
    by_pkg = {}
    for m in msgs:
        by_pkg.setdefault(m.pkgdir, []).append(m)
    for pkgdir, ms in sorted(by_pkg.items()):
        if only_pkgs is not None and pkgdir not in only_pkgs:
            continue
        name = os.path.basename(pkgdir)
        body = ['package %s' % name, '', 'import (', '\t"github.com/bluenviron/gomavlib/v3/pkg/message"', ')', '']
        for m in ms:
            body.append(gen_message(m))
        out[os.path.join(pkgdir, 'zz_verif_gen_msgs.go')] = '\n'.join(body)
        out[os.path.join(pkgdir, 'zz_verif_gen_helpers.go')] = HELPERS.replace('PKGNAME', name)
    return out
