"""C19 — enum values survive conversion to text and back."""
import os
from gosym.check import Task
from . import gen_enums

ID = 'C19'
PKG = 'pkg/dialects/common'
HARNESS_FILES = []
ALLOW = 'errors'
INITS = 'errors'
OPTIONS = {}
SLICE_S = 5
OBS_SAMPLES = 1
MAX_VALIDATE = 40
NATIVE_PKGS_MAX = 2
MAX_PATHS_PER_TASK = 100000
ANCHOR_FILES = ['/repo/pkg/conversion/conversion.go']
_state = {}


def prepare(tier, work):
    enums = gen_enums.load_enums()
    only = os.environ.get('VERIF_ONLY_PKGS')
    if only:
        enums = [e for e in enums if os.path.basename(e.pkgdir) in only.split(',')]
    _state['enums'] = enums
    groups = []
    for p in sorted({e.pkgdir for e in enums}):
        b = os.path.basename(p)
        groups.append({'name': p, 'pkgs': [p], 'roots': [b + r'\.verifHarness_E']})
    return {'extra': gen_enums.generate(enums), 'groups': groups}


def tasks(tier):
    ts = []
    for e in _state['enums']:
        if e.bitmask:
            nf = len([1 for _, v in e.consts if v != 0])
            b = (2 if nf <= 16 else 1) if tier == 'quick' else (3 if nf <= 16 else 2)
            ts.append(Task('verifHarness_EB_' + e.name, [b], pkg=e.pkgdir, group=e.pkgdir))
        else:
            ts.append(Task('verifHarness_E_' + e.name, [], pkg=e.pkgdir, group=e.pkgdir))
        ts.append(Task('verifHarness_EJ_' + e.name, [], pkg=e.pkgdir, group=e.pkgdir))
    return ts


def required_reach(tier):
    return ['E', 'EB', 'EJ']


def bounds(tier):
    es = _state.get('enums', [])
    return {'enums': '%d enum types with code (%d ordinary, %d bitmask); aliases share the code of their origin' % (
        len(es), len([e for e in es if not e.bitmask]), len([e for e in es if e.bitmask])),
        'ordinary': 'every 64-bit value at once (one path per defined constant plus one for all other values)',
        'bitmask': 'zero and every combination of at most B defined (non-zero) flags; B = %s for enums with <= 16 flags, %s for larger ones' % (('2', '1') if tier == 'quick' else ('3', '2')),
        'rejection': 'three fixed junk texts per enum'}


OUTSIDE = ['combinations of more flags than the bound', 'rejection of arbitrary junk text (only samples)',
           'generated dialects other than the shipped ones (C18 is not applicable)']
STUBS = ['strconv.Itoa / Atoi: Itoa(x) is an opaque decimal token Dec(x); Atoi(Dec(x)) = (x, nil); a token is never a map key '
         '(labels are identifiers); Atoi on concrete text follows the Go syntax',
         'strings.Join / Split on concrete parts; Split(Join(parts, sep), sep) = parts when no part contains sep',
         'fmt.Errorf opaque', 'label/value maps populated by executing the package initialiser']
ASSUMPTIONS = ['go/ssa faithfully represents the compiled code', 'gosym implements SSA semantics (validated by native replay)', 'z3 is sound']
