"""C12 — Close terminates and releases everything (scripted scenarios, one schedule each)."""
from gosym.check import Task

ID = 'C12'
PKG = '.'
HARNESS_FILES = ['pkg/frame/zz_verif_common.go', 'pkg/frame/zz_verif_dialect.go', 'pkg/frame/zz_verif_c02.go',
                 'pkg/frame/zz_verif_c05.go', 'pkg/frame/zz_verif_c06.go', 'pkg/frame/zz_verif_export.go',
                 'pkg/frame/zz_verif_msgs.go', 'zz_verif_node.go', 'zz_verif_c10.go', 'zz_verif_c11.go', 'zz_verif_life.go', 'zz_verif_c12.go']
KERNEL_PKGS = ['.']
ROOTS = [r'v3\.verifHarness_C12']
ALLOW = 'bufio,io,encoding/binary,errors,bytes,time'
INITS = 'io,bufio,errors,time,github.com/bluenviron/gomavlib/v3/pkg/message,github.com/bluenviron/gomavlib/v3/pkg/frame'
OPTIONS = {'x25_uf': True, 'now_stub': True}
NATIVE = False
ANCHOR_FILES = ['/repo/node.go', '/repo/channel.go', '/repo/channel_provider.go', '/repo/endpoint_custom.go', '/repo/endpoint_serial.go']
LEVEL_TEXT = ('bounded symbolic execution of the real Node/Channel/provider code under a cooperative goroutine scheduler: seventeen scripted '
              'close scenarios, ONE schedule each (every goroutine runs until it blocks, round-robin, to quiescence); a violation is a real '
              'reachable state, a pass covers that schedule only')
LEVEL_NOTE = ('NOT the for-all-schedules claim of the property: one deterministic schedule per scenario; custom endpoint only (no listeners, '
              'ports or sockets); trusted: go/ssa, the gosym channel/select/scheduler model, z3; counterexamples confirmed by concrete re-execution in the interpreter')
TECHNIQUE = 'symbolic execution of go/ssa under a deterministic cooperative goroutine scheduler (one schedule per scenario), assertions at quiescence'


def tasks(tier):
    return [Task('verifHarness_C12_close', [s]) for s in (0, 1, 2, 3)] + [Task('verifHarness_C12_close2', [s]) for s in (4, 5)] + \
        [Task('verifHarness_C12_init_failure', [o]) for o in (0, 1)] + [Task('verifHarness_C12_init_failure_conf', [k]) for k in (0, 1, 2, 3, 4, 5)] + [Task('verifHarness_C12_close_backoff', [])] + [Task('verifHarness_C12_close_mid_open', [w]) for w in (0, 1)]


def required_reach(tier):
    return ['C12/close', 'C12/close2', 'C12/init-failure', 'C12/init-failure-conf', 'C12/backoff', 'C12/mid-open']


def bounds(tier):
    return {'scenarios': 'Close with (0) the application consuming and the channel idle, (1) the consumer stopped and the reader stuck on the '
                         'undelivered open event, (2) the writer stuck inside a transport Write, (3) right after Initialize with a write racing, (4) while a provider is still connecting (the connection completes afterwards and must be released), (5) stream requests enabled, the reader stuck on an undelivered event with an ArduPilot heartbeat buffered behind it, (7) a serial endpoint with an open of the device in flight (the first open, or a reopen after the device was lost) that succeeds after Close was issued: the port is closed exactly once, (6) a serial endpoint whose device was lost, with every reopen failing and the reconnect timer not elapsed',
            'failed_initialize_configuration': 'invalid dialect (duplicate id), missing version, zero system id, key with version 1, stream requests without the message / without a dialect (accepted as "module off", or refused: nothing left behind either way), with two scripted endpoints that count set-ups and closes: error, no goroutine, every endpoint that was set up closed once, no provider started',
            'failed_initialize': 'a usable custom endpoint before / after an endpoint whose set-up fails: error reported, no goroutine left, the endpoint already set up closed once',
            'schedule': 'ONE: goroutines run round-robin, each until it blocks, to quiescence',
            'endpoint': 'custom transport; serial endpoint with a scripted open function (scenario 6)',
            'NOT DECIDED': 'every other interleaving; TCP/UDP endpoints, listening ports and accepted connections; '
                           'initialization failures other than a failing endpoint set-up; goroutine dumps of the real runtime'}


OUTSIDE = ['all schedules other than the round-robin one', 'TCP/UDP endpoint kinds', 'release of listening ports and accepted connections']
STUBS = ['goroutines: cooperative scheduler (gosym/sched.py); channels with rendezvous semantics for unbuffered ones; sync.WaitGroup counters; '
         'context cancel; transport blocking until the harness or Close flips a flag', 'x25 summarised, sha256 uninterpreted']
ASSUMPTIONS = ['go/ssa faithfully represents the compiled code', 'the gosym channel/select/scheduler model is faithful', 'z3 is sound']
