"""Generator of per-enum harnesses (C19). Enum declarations (type name, constants, values) are parsed from the
generated Go sources of the dialect packages; alias files carry no code and are skipped."""
import glob
import os
import re

from gosym import run as R


class Enum:
    pass


def load_enums():
    out = []
    for path in sorted(glob.glob(os.path.join(R.REPO, 'pkg', 'dialects', '*', 'enum_*.go'))):
        src = open(path).read()
        m = re.search(r'^type (\w+) uint64$', src, re.M)
        if not m:
            continue  # alias
        e = Enum()
        e.name = m.group(1)
        e.pkgdir = os.path.relpath(os.path.dirname(path), R.REPO)
        e.file = path
        e.consts = []
        for cm in re.finditer(r'^\t(\w+)\s+%s = (\d+)$' % re.escape(e.name), src, re.M):
            e.consts.append((cm.group(1), int(cm.group(2))))
        # rendering style chosen by the generator for this enum (flags joined by " | ")
        e.bitmask = 'strings.Join(names, " | ")' in src
        out.append(e)
    return out


HELPERS = '''package PKGNAME

import "strconv"

// number of set bits among the low n bits, branch-free
func verifPopcount(v uint64) uint64 {
	var c uint64
	for i := 0; i < 64; i++ {
		c += (v >> uint(i)) & 1
	}
	return c
}

func verifIsDecimalOf(txt []byte, v uint64) bool {
	x, err := strconv.Atoi(string(txt))
	return err == nil && uint64(x) == v
}
'''


def gen_enum(e):
    L = []
    w = L.append
    T = e.name
    if not e.bitmask:
        w('var verifNames_%s = map[uint64]string{' % T)
        for n, v in e.consts:
            w('\t%d: "%s",' % (v, n))
        w('}')
        w('')
        w('// every 64-bit value: text -> parse gives the value back; a defined constant is rendered as its name,')
        w('// any other value as a decimal number')
        w('func verifHarness_E_%s() {' % T)
        w('\tv := verifNondetU64()')
        w('\te := %s(v)' % T)
        w('\ttxt, err := e.MarshalText()')
        w('\tverifAssert(err == nil, "C19/marshal-ok")')
        w('\td := %s(verifNondetU64()) // the destination may hold anything before parsing' % T)
        w('\terr = d.UnmarshalText(txt)')
        w('\tverifAssert(err == nil, "C19/parse-ok")')
        w('\tverifAssert(d == e, "C19/round-trip")')
        w('\tname, defined := verifNames_%s[v]' % T)
        w('\tif defined {')
        w('\t\tverifAssert(verifEqStr(string(txt), name), "C19/defined-constant-rendered-as-name")')
        w('\t\tverifObserveStr("E/text", string(txt))')
        w('\t} else {')
        w('\t\tverifAssert(verifIsDecimalOf(txt, v), "C19/other-value-rendered-as-decimal")')
        w('\t}')
        w('\tverifAssert(verifEqStr(e.String(), string(txt)), "C19/string-is-text")')
        w('\tverifReach("E")')
        w('}')
        w('')
        w('// text that is neither a name nor a number is rejected')
        w('func verifHarness_EJ_%s() {' % T)
        w('\tvar d %s' % T)
        w('\tverifAssert(d.UnmarshalText([]byte("NOT_A_LABEL_OF_ANY_ENUM")) != nil, "C19/junk-rejected")')
        w('\tverifAssert(d.UnmarshalText([]byte("")) != nil, "C19/empty-rejected")')
        w('\tverifAssert(d.UnmarshalText([]byte("12x")) != nil, "C19/junk-number-rejected")')
        w('\tverifReach("EJ")')
        w('}')
        w('')
    else:
        flags = [(n, v) for n, v in e.consts if v != 0]
        w('// bitmask: zero and every combination of at most b defined flags: text -> parse gives the value back')
        w('func verifHarness_EB_%s(b int) {' % T)
        w('\tvar v uint64')
        w('\tvar cnt uint8')
        for i, (n, val) in enumerate(flags):
            w('\ts%d := verifNondetBool()' % i)
            w('\tv |= verifIteU64(s%d, %d, 0)' % (i, val))
            w('\tcnt += uint8(verifIteU64(s%d, 1, 0))' % i)
        w('\tverifAssume(cnt <= uint8(b))')
        w('\te := %s(v)' % T)
        w('\ttxt, err := e.MarshalText()')
        w('\tverifAssert(err == nil, "C19/marshal-ok")')
        w('\td := %s(verifNondetU64()) // the destination may hold anything before parsing' % T)
        w('\terr = d.UnmarshalText(txt)')
        w('\tverifAssert(err == nil, "C19/bitmask-parse-ok")')
        w('\tif err == nil {')
        w('\t\tverifAssert(d == e, "C19/bitmask-round-trip")')
        w('\t}')
        w('\tverifReach("EB")')
        w('}')
        w('')
        w('func verifHarness_EJ_%s() {' % T)
        w('\tvar d %s' % T)
        w('\tverifAssert(d.UnmarshalText([]byte("NOT_A_LABEL_OF_ANY_ENUM")) != nil, "C19/junk-rejected")')
        w('\tverifAssert(d.UnmarshalText([]byte("%s | NOT_A_LABEL")) != nil, "C19/junk-in-combination-rejected")' % (flags[0][0] if flags else 'X'))
        w('\tverifAssert(d.UnmarshalText([]byte("")) != nil, "C19/empty-rejected")')
        f0 = flags[0][0] if flags else '1'
        w('\tverifAssert(d.UnmarshalText([]byte("NOT_A_LABEL | %s")) != nil, "C19/junk-first-in-combination-rejected")' % f0)
        # every defined flag at once (the longest text), and all but the first / the last one
        allv = 0
        for _n, _v in flags:
            allv |= _v
        combos = [allv] + ([allv & ~flags[0][1], allv & ~flags[-1][1]] if len(flags) > 1 else [])
        for ci, cv in enumerate(combos):
            w('\t{')
            w('\t\te := %s(%d)' % (T, cv))
            w('\t\ttxt, err := e.MarshalText()')
            w('\t\tverifAssert(err == nil, "C19/marshal-ok")')
            w('\t\td2 := %s(verifNondetU64())' % T)
            w('\t\tverifAssert(d2.UnmarshalText(txt) == nil && d2 == e, "C19/all-flags-round-trip")')
            w('\t}')
        w('\tverifAssert(d.UnmarshalText([]byte("12x")) != nil, "C19/junk-number-rejected")')
        w('\tverifAssert(d.UnmarshalText([]byte("%s | 2x")) != nil, "C19/junk-number-in-combination-rejected")' % f0)
        w('\tverifAssert(d.UnmarshalText([]byte(" | ")) != nil, "C19/empty-segments-rejected")')
        w('\tverifAssert(d.UnmarshalText([]byte("%s | ")) != nil, "C19/trailing-empty-segment-rejected")' % f0)
        w('\tverifAssert(d.UnmarshalText([]byte(" | %s")) != nil, "C19/leading-empty-segment-rejected")' % f0)
        w('\tverifAssert(d.UnmarshalText([]byte("%s |  | %s")) != nil, "C19/inner-empty-segment-rejected")' % (f0, f0))
        w('\tverifAssert(d.UnmarshalText([]byte("%s|%s")) != nil, "C19/wrong-separator-rejected")' % (f0, f0))
        w('\tverifReach("EJ")')
        w('}')
        w('')
    return '\n'.join(L)


def generate(enums):
    out = {}
    by_pkg = {}
    for e in enums:
        by_pkg.setdefault(e.pkgdir, []).append(e)
    for pkgdir, es in sorted(by_pkg.items()):
        name = os.path.basename(pkgdir)
        body = ['package %s' % name, '']
        for e in es:
            body.append(gen_enum(e))
        out[os.path.join(pkgdir, 'zz_verif_gen_enums.go')] = '\n'.join(body)
        out[os.path.join(pkgdir, 'zz_verif_gen_enum_helpers.go')] = HELPERS.replace('PKGNAME', name)
    return out
