"""C01 — frame wire format: spec layout and lossless round trip."""
from gosym.check import Task

ID = 'C01'
PKG = 'pkg/frame'
HARNESS_FILES = ['pkg/frame/zz_verif_common.go', 'pkg/frame/zz_verif_c01.go']
ALLOW = 'bufio,io,encoding/binary,errors,bytes'
INITS = 'io,bufio,errors'
OPTIONS = {}
ANCHOR_FILES = ['/repo/pkg/frame/v1_frame.go', '/repo/pkg/frame/v2_frame.go', '/repo/pkg/frame/writer.go',
                '/repo/pkg/frame/reader.go', '/repo/pkg/frame/frame.go']
QUICK_LENS = [0, 1, 2, 3, 127, 128, 253, 254, 255]


def tasks(tier):
    ts = []
    lens = QUICK_LENS if tier == 'quick' else list(range(256))
    for n in lens:
        v1len = n + 8
        cuts1 = sorted({0, 1, 6, v1len - 1}) if tier == 'quick' else sorted({0, 1, 2, 5, 6, 7, v1len - 3, v1len - 2, v1len - 1})
        for c in cuts1:
            if 0 <= c < v1len:
                ts.append(Task('verifHarness_C01_v1', [n, c]))
        for signed in (0, 1):
            v2len = n + 12 + 13 * signed
            if tier == 'quick':
                cuts2 = {0, 1, 10, n + 11, v2len - 1}
            else:
                cuts2 = {0, 1, 2, 9, 10, 11, n + 10, n + 11, n + 12, n + 13, n + 18, v2len - 2, v2len - 1}
            for c in sorted(cuts2):
                if 0 <= c < v2len:
                    ts.append(Task('verifHarness_C01_v2', [n, signed, c]))
        ts.append(Task('verifHarness_C01_v1_refuse', [n]))
        if tier != 'quick' or n in (0, 1, 3, 128, 255):
            for signed in (0, 1):
                ts.append(Task('verifHarness_C01_v2_smallbuf', [n, signed]))
            ts.append(Task('verifHarness_C01_v1_smallbuf', [n]))
        if tier != 'quick' or n in (0, 3, 253, 254, 255):
            for kind in (0, 1, 2):
                ts.append(Task('verifHarness_C01_other_outversion', [n, kind]))
                ts.append(Task('verifHarness_C01_writeframe_alias', [n, kind]))
    if tier != 'quick':
        # every cut point for a few lengths
        for n in (0, 1, 7):
            for c in range(1, n + 8):
                ts.append(Task('verifHarness_C01_v1', [n, c]))
            for c in range(1, n + 25):
                ts.append(Task('verifHarness_C01_v2', [n, 1, c]))
    return ts


def required_reach(tier):
    return ['C01/v1', 'C01/v2', 'C01/refuse', 'C01/v2s', 'C01/v1s', 'C01/ov', 'C01/wf']


def bounds(tier):
    return {
        'payload_lengths': 'boundary set %s' % QUICK_LENS if tier == 'quick' else 'every length 0..255',
        'symbolic': 'sequence, system id, component id, compat flag, message id (v1: <=255; v2: <2^24; refusal: every id >255), '
                    'every payload byte, checksum, link id, 48-bit timestamp, 6 signature bytes: all values at once per path',
        'incompat_flag': '0 (unsigned) and 1 (signed), forked',
        'reader_chunking': 'single chunk and two chunks at the listed cut points'
                           + ('' if tier == 'quick' else '; every cut point for payload lengths 0, 1, 7'),
        'caller_supplied_bufio': 'v1 and v2 round trip through Reader.BufByteReader = bufio.NewReaderSize(r, 16) (smallest bufio buffer), payload lengths '
                                 + ('0,1,3,128,255' if tier == 'quick' else '0..255') + ', unsigned and signed',
        'writer_set_to_the_other_version': 'Writer.OutVersion = V1 given v2 / signed v2 frames and OutVersion = V2 given v1 frames: full spec bytes, payload lengths '
                                           + ('0,3,253,254,255' if tier == 'quick' else '0..255'),
        'deprecated_alias': 'Writer.WriteFrame (alias of Write) on raw v1 / v2 / signed v2 frames at the same payload lengths: the frame\'s own header, checksum and signature block, no dialect needed',
        'dialect': 'none (raw messages); the with-dialect round trip is covered by C02/C08/C09 harnesses',
    }


OUTSIDE = ['v2 message ids >= 2^24 (not representable; the writer truncates them silently)',
           'frames with the signed flag set and a nil Signature (writer panics; not well-formed)',
           'payloads longer than 255 bytes', 'segmentations into more than two transport reads (C05)']
STUBS = ['harness transport: recording io.Writer, chunked io.Reader (Go code in the overlay, executed symbolically)',
         'bufio.Reader, io.ReadFull, encoding/binary executed from their real source']
ASSUMPTIONS = ['go/ssa (x/tools v0.29.0) faithfully represents the compiled code',
               'the gosym executor implements SSA semantics (validated per run by native replay of sampled path models)',
               'z3 is sound']
