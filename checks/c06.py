"""C06 — link signing."""
from gosym.check import Task

ID = 'C06'
PKG = 'pkg/frame'
HARNESS_FILES = ['pkg/frame/zz_verif_common.go', 'pkg/frame/zz_verif_c06.go', 'pkg/frame/zz_verif_c06w.go', 'pkg/frame/zz_verif_c01.go', 'pkg/frame/zz_verif_dialect.go',
                 'pkg/frame/zz_verif_c02.go', 'pkg/frame/zz_verif_c05.go', 'pkg/frame/zz_verif_export.go',
                 'pkg/frame/zz_verif_msgs.go', 'pkg/streamwriter/zz_verif_c09.go', 'zz_verif_node.go', 'zz_verif_c10.go']
KERNEL_PKGS = ['.']
NATIVE_ROOT_PREFIXES = ('verifHarness_C06_', 'verifHarness_C09_', 'verifHarness_C01_')
CLOCK_PKGS = ['pkg/streamwriter', 'pkg/frame']
ROOTS = ['verifHarness_C06', 'verifHarness_C09_step', 'verifHarness_C01_v2']
ALLOW = 'bufio,io,encoding/binary,errors,bytes'
INITS = 'io,bufio,errors,github.com/bluenviron/gomavlib/v3/pkg/message'
OPTIONS = {'now_stub': True}
ANCHOR_FILES = ['/repo/pkg/frame/v2_frame.go', '/repo/pkg/frame/reader.go', '/repo/pkg/frame/writer.go',
                '/repo/pkg/streamwriter/writer.go', '/repo/channel.go', '/repo/node.go']


def lens(tier):
    return [0, 1, 2, 6] if tier == 'quick' else [0, 1, 2, 3, 6, 17, 32, 128, 255]


def tasks(tier):
    ts = []
    if tier == 'quick':
        ts.append(Task('verifHarness_C06_formula', [255]))  # the largest payload (the longest signed stream)
    for n in lens(tier):
        ts.append(Task('verifHarness_C06_formula', [n]))
        for kind in (0, 1, 2, 3):
            ts.append(Task('verifHarness_C06_gate', [kind, n]))
    # (c) frames produced by a keyed stream writer carry flag, link id, timestamp and a signature per the formula
    for shape in range(4):
        for raw in (0, 1):
            ts.append(Task('verifHarness_C09_step', [2, 1, shape, 2, raw], {'x25_uf': True}, pkg='pkg/streamwriter'))
    # (c) the frame writer emits the whole 13-byte signature block for the largest frames
    for n in (254, 255):
        ts.append(Task('verifHarness_C01_v2', [n, 1, 0]))
    for shape in range(4):
        for unset in (0, 1):
            ts.append(Task('verifHarness_C06_writemessage', [shape, unset], {'x25_uf': True}))
        ts.append(Task('verifHarness_C06_key_rotated_in_place', [shape], {'x25_uf': True}))
    for n in (0, 1, 31, 32, 33, 64):
        ts.append(Task('verifHarness_C06_key', [n]))
    for n in (0, 2):
        ts.append(Task('verifHarness_C06_replayed_trailer', [n]))
    # (d) the node hands its keys to each channel's reader and writer
    for version in (1, 2):
        for ik in (0, 1):
            for ok in (0, 1):
                ts.append(Task('verifHarness_C06_channel', [version, ik, ok], {'x25_uf': True}, pkg='.'))
    return ts


def required_reach(tier):
    return ['C06/a', 'C06/b', 'C09/S', 'C06/c', 'C06/c2', 'C06/d', 'C06/e', 'C06/f']


def bounds(tier):
    return {'payload_lengths': lens(tier),
            'symbolic': 'all 32 key bytes, every header byte, id, payload bytes, checksum, link id, 48-bit timestamp, carried signature',
            'signature_checked_every_time': 'a correctly signed frame, then a frame with the same 13-byte signature block whose sequence number / system id / checksum / first payload byte differ: refused (payload 0, 2)',
            'key_value': 'NewV2Key on slices of 0,1,31,32,33,64 symbolic bytes: copies (zero padded / cut at 32) and stays independent of the argument afterwards',
            'hash': 'SHA-256 is an uninterpreted absorb chain: unsat means for every hash function the implementation feeds exactly '
                    'the spec byte stream, keeps the first six digest bytes and compares all six'}


OUTSIDE = ['cryptographic strength: that a frame altered in any bit, or signed under another key, fails the comparison follows only '
           'modulo SHA-256 second-preimage resistance on 48 bits, which no solver decides',
           'payload lengths not listed']
STUBS = ['crypto/sha256.New/Write/Sum/Sum256: uninterpreted absorb chain sha_absorb(state, byte), digest bytes sha_out(state, i)',
         'bufio / io from real source']
ASSUMPTIONS = ['go/ssa faithfully represents the compiled code', 'gosym implements SSA semantics (validated by native replay)', 'z3 is sound',
               'crypto/sha256 implements SHA-256']
