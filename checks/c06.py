"""C06 — link signing."""
from gosym.check import Task

ID = 'C06'
PKG = 'pkg/frame'
HARNESS_FILES = ['pkg/frame/zz_verif_common.go', 'pkg/frame/zz_verif_c06.go']
ALLOW = 'bufio,io,encoding/binary,errors,bytes'
INITS = 'io,bufio,errors'
OPTIONS = {}
ANCHOR_FILES = ['/repo/pkg/frame/v2_frame.go', '/repo/pkg/frame/reader.go', '/repo/pkg/frame/writer.go',
                '/repo/pkg/streamwriter/writer.go', '/repo/channel.go', '/repo/node.go']


def lens(tier):
    return [0, 1, 2, 6] if tier == 'quick' else [0, 1, 2, 3, 6, 17, 32, 128, 255]


def tasks(tier):
    ts = []
    for n in lens(tier):
        ts.append(Task('verifHarness_C06_formula', [n]))
        for kind in (0, 1, 2, 3):
            ts.append(Task('verifHarness_C06_gate', [kind, n]))
    return ts


def required_reach(tier):
    return ['C06/a', 'C06/b']


def bounds(tier):
    return {'payload_lengths': lens(tier),
            'symbolic': 'all 32 key bytes, every header byte, id, payload bytes, checksum, link id, 48-bit timestamp, carried signature',
            'hash': 'SHA-256 is an uninterpreted absorb chain: unsat means for every hash function the implementation feeds exactly '
                    'the spec byte stream, keeps the first six digest bytes and compares all six'}


OUTSIDE = ['cryptographic strength: that a frame altered in any bit, or signed under another key, fails the comparison follows only '
           'modulo SHA-256 second-preimage resistance on 48 bits, which no solver decides',
           'payload lengths not listed']
STUBS = ['crypto/sha256.New/Write/Sum/Sum256: uninterpreted absorb chain sha_absorb(state, byte), digest bytes sha_out(state, i)',
         'bufio / io from real source']
ASSUMPTIONS = ['go/ssa faithfully represents the compiled code', 'gosym implements SSA semantics (validated by native replay)', 'z3 is sound',
               'crypto/sha256 implements SHA-256']
