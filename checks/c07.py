"""C07 — signature replay window."""
from gosym.check import Task

ID = 'C07'
PKG = 'pkg/frame'
HARNESS_FILES = ['pkg/frame/zz_verif_common.go', 'pkg/frame/zz_verif_c07.go', 'pkg/frame/zz_verif_dialect.go',
                 'pkg/frame/zz_verif_c02.go', 'pkg/frame/zz_verif_c05.go', 'pkg/frame/zz_verif_c06.go',
                 'pkg/frame/zz_verif_export.go', 'pkg/frame/zz_verif_msgs.go', 'pkg/streamwriter/zz_verif_c09.go']
CLOCK_PKGS = ['pkg/streamwriter']
ROOTS = ['verifHarness_C07']
ALLOW = 'bufio,io,encoding/binary,errors,bytes,time'
INITS = 'io,bufio,errors,time,github.com/bluenviron/gomavlib/v3/pkg/message'
OPTIONS = {}
ANCHOR_FILES = ['/repo/pkg/frame/reader.go', '/repo/pkg/streamwriter/writer.go', '/repo/pkg/frame/writer.go']


def tasks(tier):
    ts = [Task('verifHarness_C07_window', [n]) for n in ((0, 1, 3) if tier == 'quick' else (0, 1, 2, 3, 8, 64, 255))]
    ts += [Task('verifHarness_C07_forged', [n]) for n in ((1,) if tier == 'quick' else (0, 1, 3))]
    ts += [Task('verifHarness_C07_history', [k]) for k in ((2,) if tier == 'quick' else (2, 3, 4))]
    ts.append(Task('verifHarness_C07_T', [], {'x25_uf': True, 'bv_as_int_fallback': True, 'inc_timeout_ms': 300, 'timeout_ms': 5000, 'now_stub': True},
                   pkg='pkg/streamwriter'))
    ts.append(Task('verifHarness_C07_reference', [], pkg='pkg/streamwriter'))
    return ts


def required_reach(tier):
    return ['C07/W', 'C07/H', 'C07/T', 'C07/F', 'C07/R']


def bounds(tier):
    return {'window_step': 'newest-accepted timestamp and incoming timestamp: every pair in [0,2^48)^2 (one inductive step; '
                           'histories of any length follow by induction on the invariant cur = newest accepted, 0 = none)',
            'forged_frame': 'arbitrary pre-state, a frame with any six signature bytes other than the right ones and any timestamp, then a correctly signed frame: state unchanged by the forged frame',
            'history_crosscheck': 'fresh reader, %s frames with arbitrary timestamps' % ('2' if tier == 'quick' else '2..4'),
            'payload_lengths': [0, 1, 3] if tier == 'quick' else [0, 1, 2, 3, 8, 64, 255],
            'reference_instant': 'the two signatureReferenceDate globals, as set by the real package initialisers, equal time.Date(2015, 1, 1, 0, 0, 0, 0, time.UTC) (location included)',
            'writer_timestamps': 'two consecutive streamwriter writes, clock readings d1 <= d2 arbitrary in [0, 2^48 * 10 us) (years 2015..2104): ts_i = d_i / 10000 and ts2 >= ts1 (udiv monotonicity decided by cvc5 --solve-bv-as-int=sum)'}


OUTSIDE = ['wall clock stepping backwards', 'timestamps beyond 48 bits (years >= 2104)',
           'timestamp 0 as a genuinely accepted newest value is indistinguishable from "none yet" in the code and in the reference']
STUBS = ['crypto/sha256 as an uninterpreted absorb chain (frames are signed by the code under test: C07 is about the window)',
         'bufio / io from real source']
ASSUMPTIONS = ['go/ssa faithfully represents the compiled code', 'gosym implements SSA semantics (validated by native replay)', 'z3 is sound']
