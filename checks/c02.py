"""C02 — checksum gate."""
from gosym.check import Task

ID = 'C02'
PKG = 'pkg/frame'
HARNESS_FILES = ['pkg/x25/zz_verif_c02.go', 'pkg/frame/zz_verif_common.go', 'pkg/frame/zz_verif_dialect.go',
                 'pkg/frame/zz_verif_c02.go', 'pkg/frame/zz_verif_c06.go', 'pkg/frame/zz_verif_c02s.go']
ALLOW = 'bufio,io,encoding/binary,errors,bytes'
INITS = 'io,bufio,errors,github.com/bluenviron/gomavlib/v3/pkg/message'
OPTIONS = {}
UF = {'x25_uf': True}
ANCHOR_FILES = ['/repo/pkg/x25/x25.go', '/repo/pkg/frame/v1_frame.go', '/repo/pkg/frame/v2_frame.go',
                '/repo/pkg/frame/reader.go', '/repo/pkg/message/readwriter.go']


def lens(tier):
    return ([0, 1, 5, 6], [0, 1, 2, 3]) if tier == 'quick' else (list(range(0, 41)), list(range(0, 13)) + [19, 20, 255])


def tasks(tier):
    gl, rl = lens(tier)
    ts = [Task('verifHarness_C02_L1', [], pkg='pkg/x25')]
    for n in (0, 1, 2):
        ts.append(Task('verifHarness_C02_L2', [n], pkg='pkg/x25'))
    if tier != 'quick':
        ts.append(Task('verifHarness_C02_L2', [3], {'timeout_ms': 240000, 'inc_timeout_ms': 100}, pkg='pkg/x25'))
    ts.append(Task('verifHarness_C02_extras', [], UF))
    for n in gl:
        ts.append(Task('verifHarness_C02_G', [n], UF))
    for v in (1, 2):
        for n in sorted(set(rl) | {1, 5, 6, 9, 15, 19}):
            for cut in (0, 6, 11):
                ts.append(Task('verifHarness_C02_R', [v, n, cut], UF))
    for n in (0, 1, 5, 9):
        ts.append(Task('verifHarness_C02_H', [n], UF))
    for n in ((1, 5, 6) if tier == 'quick' else (0, 1, 2, 5, 6, 9, 15, 19)):
        ts.append(Task('verifHarness_C02_RS', [n, 1], UF))
        ts.append(Task('verifHarness_C02_RS', [n, 0], UF))
    return ts


def required_reach(tier):
    return ['C02/L1', 'C02/L2', 'C02/G', 'C02/X', 'C02/R', 'C02/H', 'C02/RS']


def bounds(tier):
    gl, rl = lens(tier)
    return {'L1_step': 'every (crc state, byte) pair: 2^24, one query on the real body of X25.Write',
            'L2_fold': 'slices of length 0..%d, every split point, arbitrary initial state, real body' % (2 if tier == 'quick' else 3),
            'G_sequence': 'payload lengths %s; every header byte, id < 2^24, CRC_EXTRA and payload byte symbolic; crcstep uninterpreted' % gl,
            'R_gate': 'payload lengths %s + exact sizes of the 4 harness messages; both versions; every header/payload/checksum byte symbolic; transport delivering the frame whole or cut after 6 / 11 bytes' % rl,
            'H_header_damage': 'v2 frame with arbitrary 24-bit id, header bytes, checksum, payload of 0,1,5,9 bytes: decoded only if the wire id is a dialect id and the checksum is the spec value over the wire bytes',
            'RS_keyed_reader': 'reader with a dialect and an InKey, signed v2 frame carrying the spec signature (SHA-256 uninterpreted); also the same signed frame with an arbitrary signature at a reader with the dialect and NO key, arbitrary key, header, timestamp, payload and carried checksum, payload lengths 1,5,6 (quick) / 0,1,2,5,6,9,15,19 (thorough): delivered iff the carried checksum is the spec value',
            'dialect': 'harness dialect of 4 message shapes (scalars, string+scalar, extensions, enum array)'}


OUTSIDE = ['CRC collisions (a damaged frame whose CRC happens to match is delivered by design)',
           'ids outside the dialect (delivered unchecked: the property restricts itself to dialect ids)',
           'the step from |slice| <= 2 (quick) / 3 (thorough) to arbitrary length for the fold lemma is an argument about the range loop, not mechanised']
STUBS = ['x25.(*X25).Write summarised as a fold of uninterpreted crcstep(state, byte) in G/R/X (justified by L1/L2 run on the real body in the same check); '
         'crcstep is evaluated by the bitwise reference when both arguments are concrete',
         'message.(*ReadWriter).Initialize executed from real SSA with reflect/regexp/sort.Slice/strings intrinsics on the concrete message type',
         'fmt.Errorf/Sprintf: opaque values']
ASSUMPTIONS = ['go/ssa faithfully represents the compiled code', 'gosym implements SSA semantics (validated by native replay)', 'z3 is sound']
