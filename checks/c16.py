"""C16 — automatic heartbeats and stream requests (kernels)."""
from gosym.check import Task

ID = 'C16'
PKG = '.'
HARNESS_FILES = ['pkg/frame/zz_verif_common.go', 'pkg/frame/zz_verif_dialect.go', 'pkg/frame/zz_verif_c02.go',
                 'pkg/frame/zz_verif_c05.go', 'pkg/frame/zz_verif_c06.go', 'pkg/frame/zz_verif_export.go',
                 'pkg/frame/zz_verif_msgs.go', 'zz_verif_node.go', 'zz_verif_c16.go', 'zz_verif_c09n.go']
KERNEL_PKGS = ['.']
CLOCK_PKGS = ['.']
ROOTS = [r'v3\.verifHarness_C16', r'v3\.verifHarness_C09_node_init']
ALLOW = 'bufio,io,encoding/binary,errors,bytes,time'
INITS = 'io,bufio,errors,time,github.com/bluenviron/gomavlib/v3/pkg/message,github.com/bluenviron/gomavlib/v3/pkg/frame'
OPTIONS = {'now_stub': True}
NATIVE = False
ANCHOR_FILES = ['/repo/node_heartbeat.go', '/repo/node_stream_request.go', '/repo/node.go', '/repo/channel.go']


def tasks(tier):
    ts = []
    for kind in range(6):
        for hb in (0, 1):
            for sr in (0, 1):
                ts.append(Task('verifHarness_C16_enable', [kind, hb, sr]))
    ts.append(Task('verifHarness_C16_tick', []))
    for known in (0, 1):
        for other in (0, 1, 2):
            ts.append(Task('verifHarness_C16_request', [known, other]))
    ts += [Task('verifHarness_C16_two', [s]) for s in (0, 1)]
    ts.append(Task('verifHarness_C16_cleanup', []))
    ts.append(Task('verifHarness_C16_request_on_full_backlog', []))
    # the heartbeat / stream-request settings reach the node unchanged (both constructors)
    for via in (0, 1):
        ts.append(Task('verifHarness_C09_node_init', [0, via]))
    return ts


def required_reach(tier):
    return ['C16/HS1', 'C16/H2', 'C16/S2', 'C16/S3', 'C16/S4', 'C16/S5', 'C09/N']


def bounds(tier):
    return {'enable': '6 dialect kinds (none, standard, no id 0, non-standard id 0, heartbeat only, non-standard id 66) x heartbeat disabled x stream requests enabled',
            'tick': 'one tick; configured period, system type, autopilot type (bytes) and dialect version symbolic',
            'two_heartbeats': 'two ArduPilot heartbeats in a row from the same sender or from two components of one system, arbitrary clock readings: the second triggers again iff the sender differs or >= 30 s passed',
            'settings': 'Node.Initialize / NewNode keep the configured heartbeat period, system type (any value 1..255), autopilot type, stream-request switch and frequency (symbolic)',
            'full_backlog': 'ArduPilot heartbeat on a channel whose 64-item queue is full and not drained: onEventFrame returns, 7 requests handed to the node, one event',
            'cleanup': 'one cleanup tick over a table entry of arbitrary age (dropped iff >= 30 s old), then an ArduPilot heartbeat from an unknown sender: processed without blocking (the table lock is released), sender asked',
            'request': 'one incoming frame (heartbeat, another message, another message with an Autopilot field): sender ids, autopilot byte, type, configured frequency, clock reading and the sender\'s '
                       'table entry (absent / present with an arbitrary earlier time) symbolic; an unrelated table entry is checked untouched'}


OUTSIDE = ['that ticks arrive at all / periodically (runtime timer)', 'interleaving of the cleaner goroutine with readers',
           'that onEventFrame is called for every frame before it is delivered (C10 kernel covers the call site order)',
           'system / autopilot type values above 255 (the wire field is 8 bits)']
STUBS = ['time.NewTicker: a channel that delivers one tick; period logged', 'time.Now: verifClockRef.Add(d) for an arbitrary non-decreasing d (real Time.Add executed)',
         'time.Time.Sub / Equal executed from real source', 'channels: single-goroutine model; request/event channels are sinks',
         'reflect.* intrinsics', 'sync.Mutex: lock table (a Lock on a held mutex blocks)']
ASSUMPTIONS = ['go/ssa faithfully represents the compiled code', 'the gosym channel/select model is faithful for a single goroutine',
               'counterexamples of kernel harnesses are confirmed by concrete re-execution in the interpreter, not natively', 'z3 is sound']
