"""C04 — message encode/decode round trip, v2 truncation and extension semantics, caller memory."""
from . import msgs_common as MC

ID = 'C04'
PKG = 'pkg/dialects/common'
HARNESS_FILES = []
ALLOW = MC.ALLOW
INITS = MC.INITS
OPTIONS = {}
TAG_FILTER = ('C04/',)
SLICE_S = 5
OBS_SAMPLES = 1
MAX_VALIDATE = 60
NATIVE_PKGS_MAX = 3
MAX_PATHS_PER_TASK = 3000
ANCHOR_FILES = ['/repo/pkg/message/readwriter.go', '/repo/pkg/message/message.go']
_state = {}


def prepare(tier, work):
    p = MC.prepare(tier, work, 'MD')
    _state['msgs'] = p['msgs']
    return p


def tasks(tier):
    return MC.d_tasks(_state['msgs'], tier) + MC.m_tasks(_state['msgs'], tier)


def required_reach(tier):
    return ['M', 'D']


def bounds(tier):
    return {'types': 'all %d message struct definitions of the shipped dialect packages' % len(_state.get('msgs', [])),
            'round_trip': 'as C03: every field value symbolic; strings of length 2 (+ declared+1 for short single-string messages; one over-long string at a time for multi-string messages); both versions',
            'decode': ('payload lengths {0,1,base-1,base,ext,ext+1,255} (v2) and {0,base-1,base,base+1} (v1)' if tier == 'quick'
                       else 'every payload length 0..ext+2 and 254,255,256,300 (v2); {0,1,base-1,base,base+1,ext,255} (v1)') +
                      '; every payload byte and every spare-capacity byte symbolic; caller buffer capacity = max(len, ext)+2; '
                      'messages whose string fields give more than 64 NUL-position combinations (the scan forks per string byte): quick only lengths that end before/inside the first string; thorough adds the full length when <= 4096 combinations',
            'appended_zeros': 'k = 1 (quick) / 1 at every length and 7 at the boundary lengths (thorough)',
            'removed_zeros': 'payload assumed to end in z zero bytes, which are removed: (len,z) = (base,1),(ext,2) (quick); more pairs incl. all-but-one byte (thorough)'}


OUTSIDE = ['payloads longer than 300 bytes', 'user structs other than the shipped ones']
STUBS = ['message.(*ReadWriter).Initialize/Read/Write executed from real SSA; reflect.* as intrinsics over the static type table; bytes.Repeat contract']
ASSUMPTIONS = ['go/ssa faithfully represents the compiled code', 'gosym implements SSA semantics (validated by native replay)', 'z3 is sound']
