"""C04 — message encode/decode round trip, v2 truncation and extension semantics, caller memory."""
from . import msgs_common as MC

ID = 'C04'
PKG = 'pkg/dialects/common'
HARNESS_FILES = ['pkg/frame/zz_verif_common.go', 'pkg/frame/zz_verif_dialect.go', 'pkg/frame/zz_verif_msgs.go', 'pkg/frame/zz_verif_c02.go',
                 'pkg/x25/zz_verif_c02.go', 'pkg/frame/zz_verif_c05.go', 'pkg/frame/zz_verif_c06.go', 'pkg/frame/zz_verif_export.go', 'pkg/frame/zz_verif_c08.go', 'pkg/frame/zz_verif_c04t.go']
ALLOW = MC.ALLOW
INITS = MC.INITS
OPTIONS = {}
TAG_FILTER = ('C04/',)
SLICE_S = 5
OBS_SAMPLES = 1
MAX_VALIDATE = 60
NATIVE_PKGS_MAX = 3
MAX_PATHS_PER_TASK = 3000
ANCHOR_FILES = ['/repo/pkg/message/readwriter.go', '/repo/pkg/message/message.go']
_state = {}


def prepare(tier, work):
    p = MC.prepare(tier, work, 'MD')
    _state['msgs'] = p['msgs']
    p['groups'].append({'name': 'pkg/frame', 'pkgs': ['pkg/frame'], 'roots': [r'frame\.verifHarness_C04_twice']})
    return p


def tasks(tier):
    from gosym.check import Task
    ts = []
    # one codec used twice in a row (harness dialect shapes; shape 1 has the string)
    for v2 in (0, 1):
        for shape in (0, 2, 3):
            ts.append(Task('verifHarness_C04_twice', [v2, shape, 2, 2], pkg='pkg/frame', group='pkg/frame'))
        for l1, l2 in (((4, 1), (5, 0)) if tier == 'quick' else ((4, 1), (5, 0), (1, 4), (5, 5), (3, 2))):
            ts.append(Task('verifHarness_C04_twice', [v2, 1, l1, l2], pkg='pkg/frame', group='pkg/frame'))
    return ts + MC.d_tasks(_state['msgs'], tier) + MC.m_tasks(_state['msgs'], tier)


def required_reach(tier):
    return ['M', 'D', 'C04/2x']


def bounds(tier):
    return {'codec_used_twice': 'one message.ReadWriter, two consecutive Write calls and two consecutive Read calls with independent arbitrary values (4 harness shapes; the string shape with a longer string followed by a shorter one and the reverse): the second result is that of a fresh codec, the first result is left alone',
            'types': 'all %d message struct definitions of the shipped dialect packages' % len(_state.get('msgs', [])),
            'round_trip': 'as C03: every field value symbolic; strings of length 2 (+ declared+1 for short single-string messages; one over-long string at a time for multi-string messages); both versions',
            'decode': ('payload lengths {0,1,base-1,base,ext,ext+1,255} (v2) and {0,base-1,base,base+1} (v1)' if tier == 'quick'
                       else 'types without strings: every payload length 0..ext+2 and 254,255,256,300; types with strings: 0..3, base-2..base+1, ext-1..ext+2, the offsets around each string\'s start and end, 255, 300 (v2); {0,1,base-1,base,base+1,ext,255} (v1)') +
                      '; every payload byte and every spare-capacity byte symbolic; caller buffer capacity = max(len, ext)+2; '
                      'messages whose string fields give more than 64 NUL-position combinations (the scan forks per string byte): only lengths that end before/inside the first string (quick: 0, 1, first+1; thorough: 0..first+2)',
            'appended_zeros': 'k = 1 (quick) / 1 at every length and 7 at the boundary lengths (thorough)',
            'removed_zeros': 'payload assumed to end in z zero bytes, which are removed: (len,z) = (base,1),(ext,2) (quick, and types with strings); more pairs incl. all-but-one byte (thorough, types without strings); not for string-heavy types'}


OUTSIDE = ['payloads longer than 300 bytes', 'user structs other than the shipped ones']
STUBS = ['message.(*ReadWriter).Initialize/Read/Write executed from real SSA; reflect.* as intrinsics over the static type table; bytes.Repeat contract']
ASSUMPTIONS = ['go/ssa faithfully represents the compiled code', 'gosym implements SSA semantics (validated by native replay)', 'z3 is sound']
