"""shared by C03 and C04: program groups (one per dialect package) and tasks over the generated harnesses"""
import os
from gosym.check import Task
from . import gen_msgs

ALLOW = 'bufio,io,encoding/binary,errors,bytes,unicode/utf8'
INITS = 'io,errors,unicode/utf8,github.com/bluenviron/gomavlib/v3/pkg/message'


def prepare(tier, work, want):
    """want: 'M' (layout/roundtrip), 'D' (decode) or 'MD'"""
    msgs = gen_msgs.load_message_defs(work)
    only = os.environ.get('VERIF_ONLY_PKGS')
    if only:
        msgs = [m for m in msgs if os.path.basename(m.pkgdir) in only.split(',')]
    extra = gen_msgs.generate(msgs)
    groups = []
    pk = sorted({m.pkgdir for m in msgs})
    for p in pk:
        roots = []
        if 'M' in want:
            roots.append(r'\.verifHarness_M_')
        if 'D' in want:
            roots.append(r'\.verifHarness_D_')
        groups.append({'name': p, 'pkgs': [p], 'roots': [os.path.basename(p) + x for x in roots]})
    return {'extra': extra, 'groups': groups, 'msgs': msgs}


def strings_of(m):
    return [f for f in m.fields if f.gobasic == 'string' and not f.is_enum]


def m_tasks(msgs, tier):
    ts = []
    for m in msgs:
        strs = strings_of(m)
        maxlen = max([f.strlen for f in strs] or [0])
        nstr = len(strs)
        if tier == 'quick':
            variants = [(0, 9, 2), (1, 0, 2), (1, 1, 2), (1, 2, 2)]
            if strs and maxlen <= 32 and nstr == 1:
                variants.append((1, 0, maxlen + 1))
        else:
            variants = [(0, 9, 2), (1, 0, 2), (1, 1, 2), (1, 2, 2), (1, 3, 2)]
            if m.size_extended <= 64:
                variants.append((1, 9, 1))
            if strs:
                for k in sorted({0, 1, maxlen, maxlen + 1}):
                    if nstr == 1 or k <= 2:
                        variants.append((1, 0, k))
                        variants.append((0, 9, k))
        if nstr >= 2:
            # one over-long string at a time, the others short (a spill into the next field would show)
            for si in range(min(nstr, 2 if tier == 'quick' else 6)):
                if strs[si].strlen <= 64:
                    variants.append((1, 0, 1000 + si))
                    if tier != 'quick':
                        variants.append((0, 9, 1000 + si))
        for v in variants:
            ts.append(Task('verifHarness_M_' + m.go, list(v), pkg=m.pkgdir, group=m.pkgdir))
    return ts


def d_tasks(msgs, tier):
    ts = []
    for m in msgs:
        sn, se = m.size_normal, m.size_extended
        strs = strings_of(m)
        prod = 1
        for f in strs:
            prod *= f.strlen + 1
        heavy = prod > 64
        if tier == 'quick':
            l2 = {0, 1, sn - 1, sn, se, se + 1, 255}
            l1 = {0, sn - 1, sn, sn + 1}
            if heavy:
                l2 = {0, 1, min(f.off for f in strs) + 1}
                l1 = {0, sn - 1, sn + 1}
            ks = [1]
        else:
            # every length up to two bytes past the extended size (beyond it the decoder only ignores the tail), then
            # the protocol maximum and beyond
            l2 = set(range(0, se + 3)) | {254, 255, 256, 300}
            if strs:
                # every length forks over the NUL positions of the strings it covers: types with strings get a dense
                # boundary set instead of every length
                l2 = {0, 1, 2, 3, sn - 2, sn - 1, sn, sn + 1, se - 1, se, se + 1, se + 2, 255, 300} | \
                    {f.off + d for f in strs for d in (0, 1, 2)} | {f.off + f.strlen + d for f in strs for d in (-1, 0, 1)}
            l1 = {0, 1, sn - 1, sn, sn + 1, se, 255}
            if heavy:
                first = min(f.off for f in strs)
                # (the full length was tried for types with <= 4096 NUL-position combinations: those tasks alone ran for
                # more than an hour, so string-heavy types keep the lengths that end before / inside the first string)
                l2 = set(range(0, first + 3))
                l1 = {0, 1, sn - 1, sn + 1}
            ks = [1, 7]
        for n in sorted(x for x in l1 if 0 <= x):
            ts.append(Task('verifHarness_D_' + m.go, [0, n, 0, 0], pkg=m.pkgdir, group=m.pkgdir))
        for n in sorted(x for x in l2 if 0 <= x):
            for k in ks:
                if k != 1 and tier != 'quick' and n not in (0, 1, sn - 1, sn, se, se + 1, 255):
                    continue  # the second amount of appended zeros only at the boundary lengths
                ts.append(Task('verifHarness_D_' + m.go, [1, n, k, 0], pkg=m.pkgdir, group=m.pkgdir))
        # removal of z trailing zero bytes (payload assumed to end in z zeros)
        zs = [(sn, 1), (se, 2)] if (tier == 'quick' or strs) else [(sn, 1), (sn, 2), (se, 1), (se, 3), (se + 2, 2), (se + 1, se)]
        for n, z in zs:
            # (string-heavy types: full-length payloads fork over every NUL position; they took minutes each)
            if n - z >= 1 and z >= 1 and not heavy:
                ts.append(Task('verifHarness_D_' + m.go, [1, n, 1, z], pkg=m.pkgdir, group=m.pkgdir))
    return ts
