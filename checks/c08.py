"""C08 — routing transparency."""
from gosym.check import Task

ID = 'C08'
PKG = 'pkg/frame'
HARNESS_FILES = ['pkg/frame/zz_verif_common.go', 'pkg/frame/zz_verif_dialect.go', 'pkg/frame/zz_verif_c02.go',
                 'pkg/frame/zz_verif_c08.go', 'pkg/frame/zz_verif_c05.go', 'pkg/frame/zz_verif_c06.go',
                 'pkg/frame/zz_verif_export.go', 'pkg/frame/zz_verif_msgs.go', 'zz_verif_node.go', 'zz_verif_c10.go']
KERNEL_PKGS = ['.']
NATIVE_ROOT_PREFIXES = ('verifHarness_C08_',)
ROOTS = ['verifHarness_C08']
ALLOW = 'bufio,io,encoding/binary,errors,bytes'
INITS = 'io,bufio,errors,github.com/bluenviron/gomavlib/v3/pkg/message'
OPTIONS = {'x25_uf': True}
SLICE_S = 5
ANCHOR_FILES = ['/repo/pkg/frame/reader.go', '/repo/pkg/frame/writer.go', '/repo/node.go', '/repo/pkg/message/readwriter.go']
SIZES = [(19, 19), (6, 6), (5, 9), (15, 15)]


def tasks(tier):
    ts = []
    for kind in (0, 1, 2):
        for n in ((0, 1, 3, 255) if tier == 'quick' else (0, 1, 2, 3, 9, 64, 254, 255)):
            ts.append(Task('verifHarness_C08_N', [kind, n], {'x25_uf': False}))
    for shape, (sn, se) in enumerate(SIZES):
        ts.append(Task('verifHarness_C08_D', [1, shape, sn]))
        lens = sorted({0, 1, 2, sn - 1, sn, se, se + 1, se + 2}) if tier == 'quick' else list(range(0, se + 3))
        for n in lens:
            if n >= 0:
                ts.append(Task('verifHarness_C08_D', [2, shape, n]))
                if tier != 'quick' or n in (sn, se + 1):
                    ts.append(Task('verifHarness_C08_D', [3, shape, n]))
    # F: FixFrame after edits (root package)
    for shape in range(4):
        for sl in ([2] if shape != 1 else [0, 2, 5]):
            ts.append(Task('verifHarness_C08_fix', [1, shape, 0, sl], pkg='.'))
            ts.append(Task('verifHarness_C08_fix', [2, shape, 0, sl], pkg='.'))
            ts.append(Task('verifHarness_C08_fix', [2, shape, 1, sl], pkg='.'))
            ts.append(Task('verifHarness_C08_fix', [2, shape, 2, sl], pkg='.'))
            ts.append(Task('verifHarness_C08_fix', [2, shape, 3, sl], pkg='.'))
            ts.append(Task('verifHarness_C08_fix', [1, shape, 4, sl], pkg='.'))
            ts.append(Task('verifHarness_C08_fix', [2, shape, 4, sl], pkg='.'))
            ts.append(Task('verifHarness_C08_fix', [2, shape, 5, sl], pkg='.'))
            ts.append(Task('verifHarness_C08_fix', [2, shape, 6, sl], pkg='.'))
    return ts


def required_reach(tier):
    return ['C08/N', 'C08/D', 'C08/F']


def bounds(tier):
    return {'no_dialect': 'v1 / v2 / signed v2, payload lengths 0,1,3,255 (quick) or 0,1,2,3,9,64,254,255 (thorough), every byte symbolic',
            'fixframe': 'received frame with arbitrary header and stale checksum/signature, message = arbitrary value of each harness shape (the edit), FixFrame, forward, next hop with InKey = OutKey: v1, v2 unsigned, v2 signed with an outgoing key, v2 unsigned on a node that has an outgoing key (next hop without a key), a signed frame whose checksum is already right (re-signing), a frame edited and fixed a second time (v1, v2, signed), a signed frame fixed by a node without an outgoing key (next hop without a key); the forwarded stream holds nothing but the frame',
            'dialect': 'harness dialect (4 shapes); v1 at the exact base length; v2 payload lengths 0,1,2 and around base/extended size and +1,+2 (quick) / '
                       'every length 0..extended+2 (thorough); every payload byte symbolic (so canonical, zero-padded, '
                       'bytes-after-NUL and unknown-trailing-bytes encodings are all included); checksum = spec value; signed v2 frames (arbitrary signature block, hops without a key) at the base and extended+1 lengths (quick) / every length (thorough)'}


OUTSIDE = ['shipped message types (per-type layout is C03/C04)',
           'validity of the signature of a signed frame after a dialect hop (the signature covers the payload, which re-encoding may change; the property requires the checksum only, which is checked)']
STUBS = ['x25 summarised by crcstep in the dialect harness (C02 lemmas); real x25 not involved without a dialect', 'bufio / io real source',
         'message.(*ReadWriter).Initialize executed from real SSA with reflect intrinsics']
ASSUMPTIONS = ['go/ssa faithfully represents the compiled code', 'gosym implements SSA semantics (validated by native replay)', 'z3 is sound']
