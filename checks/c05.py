"""C05 — frame reader totality, progress, resynchronisation, split independence."""
from gosym.check import Task

ID = 'C05'
PKG = 'pkg/frame'
HARNESS_FILES = ['pkg/frame/zz_verif_common.go', 'pkg/frame/zz_verif_c05.go', 'pkg/frame/zz_verif_dialect.go', 'pkg/frame/zz_verif_c02.go',
                 'pkg/x25/zz_verif_c02.go', 'pkg/frame/zz_verif_c06.go', 'pkg/frame/zz_verif_c05d.go']
ROOTS = ['verifHarness_C05']
ALLOW = 'bufio,io,encoding/binary,errors,bytes'
INITS = 'io,bufio,errors,github.com/bluenviron/gomavlib/v3/pkg/message'
OPTIONS = {}
SLICE_S = 3
MAX_PATHS_PER_TASK = 60000
ANCHOR_FILES = ['/repo/pkg/frame/reader.go', '/repo/pkg/frame/v1_frame.go', '/repo/pkg/frame/v2_frame.go']


def params(tier):
    return (6, 1) if tier == 'quick' else (8, 2)


def tasks(tier):
    lmax, maxmode = params(tier)
    ts = []
    for L in range(0, lmax + 1):
        for mode in range(0, maxmode + 1):
            if mode > 0 and L < 2:
                continue
            if tier != 'quick' and ((L >= 8 and mode >= 1) or (L >= 7 and mode >= 2)):
                continue
            for inj in (0, 1):
                if inj == 1 and mode > 1:
                    continue
                ts.append(Task('verifHarness_C05_arbitrary', [L, mode, inj]))
    ts.sort(key=lambda t: -t.args[0])
    # B: structured streams (two frames, noise around them)
    if tier == 'quick':
        combos = [(0, 1, 1, 2, 101, 0), (1, 0, 2, 1, 10, 0), (2, 3, 0, 0, 111, 0), (0, 2, 2, 0, 1, 1), (1, 1, 1, 1, 100, 1), (2, 1, 2, 2, 10, 1)]
    else:
        combos = []
        for k1 in (0, 1, 2):
            for k2 in (0, 1, 2):
                for n1, n2 in ((0, 1), (1, 3), (2, 0), (3, 2)):
                    for noise in (0, 1, 10, 100, 111, 212):
                        for mode in (0, 1, 2):
                            if mode == 2 and (noise not in (0, 111) or n1 > 1):
                                continue
                            combos.append((k1, n1, k2, n2, noise, mode))
    ts = [Task('verifHarness_C05_structured', list(c)) for c in combos] + ts
    # T: every cut of a valid frame
    for kind, n in (((0, 1), (1, 0), (2, 1)) if tier == 'quick' else ((0, 0), (0, 2), (1, 0), (1, 3), (2, 0), (2, 2))):
        full = n + (8 if kind == 0 else 12 if kind == 1 else 25)
        for cut in range(1, full):
            for inj in ((0,) if tier == 'quick' and cut % 3 else (0, 1)):
                ts.append(Task('verifHarness_C05_truncated', [kind, n, cut, inj]))
    # G: one transient transport fault at every offset of a frame
    for kind, n in (((0, 1), (2, 0)) if tier == 'quick' else ((0, 0), (0, 2), (1, 1), (2, 0), (2, 2))):
        full = n + (8 if kind == 0 else 12 if kind == 1 else 25)
        for at in range(0, full + 1):
            for small in ((0,) if tier == 'quick' and at % 2 else (0, 1)):
                ts.append(Task('verifHarness_C05_glitch', [kind, n, at, small]))
    # K: keyed link: a refused complete frame, then a correctly signed one
    for kind in (0, 1):
        for n in ((0, 2, 5) if tier == 'quick' else (0, 1, 2, 3, 5, 9)):
            ts.append(Task('verifHarness_C05_keyed', [kind, n]))
    # D: with a dialect: payloads shorter / exact / longer than the message, arbitrary checksum
    for n in ((0, 5, 9, 10, 20) if tier == 'quick' else (0, 1, 4, 5, 6, 9, 10, 15, 16, 19, 20, 40)):
        ts.append(Task('verifHarness_C05_dialect', [1, n], {'x25_uf': True}))
    for n in ((5, 19) if tier == 'quick' else (0, 5, 6, 15, 19, 20)):
        ts.append(Task('verifHarness_C05_dialect', [0, n], {'x25_uf': True}))
    return ts


def required_reach(tier):
    return ['C05/A', 'C05/B', 'C05/T', 'C05/D', 'C05/G', 'C05/K']


def bounds(tier):
    lmax, maxmode = params(tier)
    return {'stream_length': 'every length 0..%d, every byte symbolic' % lmax,
            'segmentations': 'reference reader: one chunk; second reader: all 1-byte chunks, and every placement of up to %d cut points' % maxmode + ('' if tier == 'quick' else ' (length 8: 1-byte chunks only; length 7: at most one cut)'),
            'structured_streams': 'two frames (v1 / v2 / signed v2, payload 0..3, all contents symbolic) with 0..2 non-marker noise bytes before, between and after; second reader fed 1-byte chunks or with ' + ('one' if tier == 'quick' else 'one or two') + ' arbitrary cut point(s); ' + ('6 layouts' if tier == 'quick' else 'all kind pairs x 4 length pairs x 6 noise layouts'),
            'truncated_frames': 'a valid v1 / v2 / signed v2 frame cut at every offset, transport ending with EOF or another error, whole or in 1-byte reads: the first call returns no frame (what follows on the leftover bytes is harness A)',
            'transient_fault': 'a valid v1 / signed v2 (quick) frame, every kind (thorough), followed by a second frame, with one non-sticky transport error after every offset, whole or 1-byte reads: the call that runs into the fault and the next one return frame xor error, no panic, fault reported at most once; a fault between frames loses nothing (stream drained)',
            'transport_end': 'io.EOF, and a non-EOF error after the last byte (= an error injected at every offset, since every length is explored)',
            'dialect': 'reader with the harness dialect (4 message shapes): a v1 / v2 frame with a dialect id, a payload of length ' + ('0,5,9,10,20' if tier == 'quick' else '0..40 (12 values)') + ' (shorter, exact, longer than the message), arbitrary bytes and checksum, then a valid frame: frame or parse error, never a panic, the following frame delivered, then EOF; crcstep uninterpreted',
            'keyed_link': 'reader with InKey (SHA-256 uninterpreted): a complete v1 / unsigned v2 frame of payload ' + ('0,2,5' if tier == 'quick' else '0,1,2,3,5,9') + ' with every byte arbitrary, then a correctly signed frame: one parse error consuming exactly the refused frame, the signed frame, EOF'}


OUTSIDE = ['streams longer than the bound', 'underlying readers that return (0, nil)',
           'segmentations with more cut points than the bound other than all-1-byte']
STUBS = ['none: bufio.Reader, io.ReadFull/ReadAtLeast, encoding/binary are executed from real source']
ASSUMPTIONS = ['go/ssa faithfully represents the compiled code', 'gosym implements SSA semantics (validated by native replay)', 'z3 is sound']
