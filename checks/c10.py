"""C10 — per-channel event stream (data clauses only)."""
from gosym.check import Task

ID = 'C10'
PKG = '.'
HARNESS_FILES = ['pkg/frame/zz_verif_common.go', 'pkg/frame/zz_verif_dialect.go', 'pkg/frame/zz_verif_c02.go',
                 'pkg/frame/zz_verif_c05.go', 'pkg/frame/zz_verif_c06.go', 'pkg/frame/zz_verif_export.go',
                 'pkg/frame/zz_verif_msgs.go', 'zz_verif_node.go', 'zz_verif_c10.go', 'zz_verif_c11.go', 'zz_verif_life.go']
KERNEL_PKGS = ['.']
ROOTS = [r'v3\.verifHarness_C10', r'v3\.verifHarness_C14_read_failure']
ALLOW = 'bufio,io,encoding/binary,errors,bytes'
INITS = 'io,bufio,errors,github.com/bluenviron/gomavlib/v3/pkg/message,github.com/bluenviron/gomavlib/v3/pkg/frame'
OPTIONS = {'x25_uf': True}
NATIVE = False
ANCHOR_FILES = ['/repo/channel.go', '/repo/node.go', '/repo/channel_provider.go', '/repo/events.go']


def tasks(tier):
    ts = []
    for keyed in (0, 1):
        for chunk in ((0, 1, 7) if tier == 'quick' else (0, 1, 2, 5, 7, 12, 22, 23, 30, 45)):
            ts.append(Task('verifHarness_C10_reader', [keyed, chunk]))
    ts += [Task('verifHarness_C14_read_failure', [busy]) for busy in (0, 1, 2, 3)]
    ts.append(Task('verifHarness_C10_write_failure_order', []))
    ts.append(Task('verifHarness_C10_many_errors', []))
    for keyed in (0, 1):
        for chunk in ((0, 5) if tier == 'quick' else (0, 1, 5, 13, 30, 40)):
            ts.append(Task('verifHarness_C10_consumer', [keyed, chunk]))
            ts.append(Task('verifHarness_C10_consumer_custom', [keyed, chunk]))
    return ts


def required_reach(tier):
    return ['C10/R', 'C14/L2', 'C10/C', 'C10/W', 'C10/E']


def bounds(tier):
    return {'long_error_run': '130 junk bytes and a frame with a wrong checksum, then a valid frame: 131 parse errors, the frame, no close',
            'stream': 'junk byte (not a marker), valid frame, complete frame with a wrong checksum (keyed link: wrong signature, then an '
                      'unsigned frame), valid frame; all header/payload bytes symbolic (valid frames kept canonical: last payload byte non-zero)',
            'segmentation': 'first transport read of size 0(all),1,7 (quick) / ten sizes (thorough)',
            'write_failure_order_one_schedule': 'three frames received in one piece, a slow application, then a failing write: the close event comes after every received frame and nothing follows it',
            'consumer_one_schedule': '(also over the connection wrapper of a custom endpoint, the last bytes arriving together with io.EOF) the whole channel (run, reader, writer) over frame, junk, frame, frame then end of stream, the harness taking events one at a time from the unbuffered event channel: open, every item in order, one close carrying io.EOF, nothing after, goroutines ended',
            'close_event_one_schedule': 'Channel.run with reader, writer and run goroutines executed round-robin to quiescence: after a transport read failure (writer idle or stuck in the transport) exactly one close event, carrying the cause, transport closed, no goroutine left, done signalled',
            'NOT DECIDED': 'exactly one close event, close after the last frame, nothing after close, attribution under cross-channel '
                           'interleavings, losslessness under a slow consumer, concurrent writes: schedule clauses (Channel.run joins, '
                           'pushEvent racing with terminate) have no schedule variable in a single-goroutine encoding'}


OUTSIDE = ['every schedule clause of the property (see NOT DECIDED)', 'streams of other shapes (reader behaviour on arbitrary streams: C05)']
STUBS = ['channels single-goroutine model, event channel is a sink', 'x25 summarised, sha256 uninterpreted', 'context, crypto/rand stubs']
ASSUMPTIONS = ['go/ssa faithfully represents the compiled code', 'the gosym channel/select model is faithful for a single goroutine',
               'counterexamples of kernel harnesses are confirmed by concrete re-execution in the interpreter, not natively', 'z3 is sound']
